// GENUINE DEFECT G2 (present in the UNMODIFIED tree) — reproducer.
//
// Copy into: middleware/resolver/dnssec/   (package dnssec)
// Run:       go test -vet=off -count=1 -run 'TestGenuineC02G2' ./middleware/resolver/dnssec/
//
// VerifyWildcardAnswer (wildcard.go, nextCloserDeniedWithWork) treats the
// next-closer name as "denied" whenever some NSEC canonically covers it. It
// never checks that the NSEC's next name lies BELOW the next closer, i.e. that
// the next closer is an EMPTY NON-TERMINAL and therefore exists. (The NSEC3
// branch is fine: an ENT owns an NSEC3 of its own and so is matched, not
// covered.)
//
// Zone example.:   *.example. A 192.0.2.1 ;  x.b.example. A   (b.example. is an ENT)
//
//	*.example.   NSEC x.b.example.  A RRSIG NSEC
//
// a.b.example. does NOT match *.example.: its closest encloser is the existing
// b.example., and *.b.example. does not exist, so the truth is NXDOMAIN. An
// on-path party can nevertheless take the zone's genuine "*.example. A" RRset
// with its genuine RRSIG (Labels=1), print a.b.example. over it — signature
// verification reconstructs the wildcard owner, so it verifies — and attach
// the genuine NSEC above. sdns accepts the denial of b.example. and returns
// the forged positive answer authenticated. Everything below any ENT of a
// zone that has a wildcard above it can be given the wildcard's data this way.
package dnssec

import (
	"crypto"
	"testing"
	"time"

	"github.com/miekg/dns"
)

func TestGenuineC02G2_WildcardAnswerAcceptsDenialOfEmptyNonTerminal(t *testing.T) {
	parse := func(s string) dns.RR {
		rr, err := dns.NewRR(s)
		if err != nil {
			t.Fatalf("parse %q: %v", s, err)
		}
		return rr
	}

	// A real key for example., so the replay is shown to survive RRSIG
	// validation and not only the semantic check.
	key := &dns.DNSKEY{
		Hdr:   dns.RR_Header{Name: "example.", Rrtype: dns.TypeDNSKEY, Class: dns.ClassINET, Ttl: 3600},
		Flags: 257, Protocol: 3, Algorithm: dns.ECDSAP256SHA256,
	}
	priv, err := key.Generate(256)
	if err != nil {
		t.Fatal(err)
	}
	sign := func(rrset []dns.RR) *dns.RRSIG {
		now := time.Now()
		sig := &dns.RRSIG{
			Algorithm:  key.Algorithm,
			Expiration: uint32(now.Add(6 * time.Hour).Unix()),  //nolint:gosec // test epoch
			Inception:  uint32(now.Add(-6 * time.Hour).Unix()), //nolint:gosec // test epoch
			KeyTag:     key.KeyTag(),
			SignerName: "example.",
		}
		if err := sig.Sign(priv.(crypto.Signer), rrset); err != nil {
			t.Fatal(err)
		}
		return sig
	}

	// What the zone really publishes.
	wildcardA := parse(`*.example. 300 IN A 192.0.2.1`)
	wildcardSig := sign([]dns.RR{wildcardA}) // Labels = 1
	nsec := parse(`*.example. 300 IN NSEC x.b.example. A RRSIG NSEC`)
	nsecSig := sign([]dns.RR{nsec})

	// The replay: the wildcard RRset and its signature, printed over a.b.example.
	forgedA := dns.Copy(wildcardA)
	forgedA.Header().Name = "a.b.example."
	forgedSig := dns.Copy(wildcardSig).(*dns.RRSIG)
	forgedSig.Hdr.Name = "a.b.example."
	if forgedSig.Labels != 1 {
		t.Fatalf("fixture: wildcard RRSIG labels = %d, want 1", forgedSig.Labels)
	}

	msg := new(dns.Msg)
	msg.SetQuestion("a.b.example.", dns.TypeA)
	msg.Response = true
	msg.Answer = []dns.RR{forgedA, forgedSig}
	msg.Ns = []dns.RR{nsec, nsecSig}

	keys := map[uint16][]*dns.DNSKEY{KeyTag(key): {key}}
	if ok, err := VerifyRRSIG("example.", keys, msg); err != nil || !ok {
		t.Fatalf("fixture: the replayed records must pass signature validation (ok=%v err=%v)", ok, err)
	}

	// The very same NSEC, read by the repository's RFC 8198 evaluator, says
	// the next closer name b.example. EXISTS (empty non-terminal => NODATA).
	res, err := EvaluateAggressiveNSEC(
		dns.Question{Name: "b.example.", Qtype: dns.TypeA, Qclass: dns.ClassINET},
		"example.", []dns.RR{nsec})
	if err != nil || res.Rcode != dns.RcodeSuccess {
		t.Fatalf("reference evaluator for b.example.: rcode=%d err=%v, want NODATA (ENT)", res.Rcode, err)
	}

	secure, err := VerifyWildcardAnswerForZoneWithWork(msg, "example.", nil)
	if err == nil {
		t.Fatalf("wildcard expansion onto a.b.example. accepted (secure=%v): the next closer name "+
			"b.example. was taken as denied although the NSEC's next name x.b.example. lies below it, "+
			"which proves b.example. exists", secure)
	}
}
