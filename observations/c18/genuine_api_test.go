// Reproducer (API level) for G2 of README.md: FAILS on a clean checkout.
//
// Copy into:  api/   (e.g. as zz_c18_genuine_api_test.go)
// Run with:   go test -vet=off -count=1 -run 'TestC18GenuineAPI' ./api/
package api

import (
	"net/http"
	"net/http/httptest"
	"strings"
	"testing"

	"github.com/semihalev/sdns/config"
	"github.com/semihalev/sdns/middleware"
	"github.com/semihalev/sdns/middleware/blocklist"
)

// A pasted hosts-file line is accepted as ONE key by POST /api/v1/block/set/batch
// ("added":1). In memory it is the (unmatchable) name "0.0.0.0 ads.example.com.";
// the persisted list reloads it as the different entry "ads.example.com.". So the
// running server does not block ads.example.com, the restarted one does.
func TestC18GenuineAPI_G2_BatchKeyDoesNotRoundTrip(t *testing.T) {
	dir := t.TempDir()
	mk := func() *blocklist.BlockList {
		cfg := new(config.Config)
		cfg.Nullroute = "0.0.0.0"
		cfg.Nullroutev6 = "::0"
		cfg.BlockListDir = dir
		return blocklist.New(cfg)
	}
	middleware.Reset()
	t.Cleanup(middleware.Reset)
	middleware.Register("blocklist", func(*config.Config) middleware.Handler { return mk() })
	middleware.Setup(new(config.Config))
	running := middleware.Get("blocklist").(*blocklist.BlockList)

	a := New(&config.Config{})
	a.router.Group("/api/v1/block").POST("/set/batch", a.setBlockBatch)

	w := httptest.NewRecorder()
	r, _ := http.NewRequest(http.MethodPost, "/api/v1/block/set/batch", strings.NewReader(`{"keys":["0.0.0.0 ads.example.com"]}`))
	a.router.ServeHTTP(w, r)
	if w.Code != http.StatusOK || !strings.Contains(w.Body.String(), `"added":1`) {
		t.Fatalf("batch set: %d %s", w.Code, w.Body.String())
	}

	restarted := mk()
	if got, want := restarted.Exists("ads.example.com."), running.Exists("ads.example.com."); got != want {
		t.Errorf("ads.example.com. blocked: running server %v, server restarted from the persisted list %v (lengths %d / %d)", want, got, running.Length(), restarted.Length())
	}
}
