// Reproducers for behaviour of the UNMODIFIED tree that contradicts property
// C18. Every test in this file FAILS on a clean checkout.
//
// Copy into:  middleware/blocklist/   (e.g. as zz_c18_genuine_test.go)
// Run with:   go test -vet=off -count=1 -run 'TestC18Genuine' ./middleware/blocklist/
//
// See README.md next to this file for the description of each one.
package blocklist

import (
	"context"
	"fmt"
	"os"
	"path/filepath"
	"sort"
	"strings"
	"testing"
	"time"

	"github.com/miekg/dns"
	"github.com/semihalev/sdns/config"
	"github.com/semihalev/sdns/internal/mock"
	"github.com/semihalev/sdns/middleware"
)

func c18gNew(dir string, whitelist ...string) *BlockList {
	cfg := new(config.Config)
	cfg.Nullroute = "0.0.0.0"
	cfg.Nullroutev6 = "::0"
	cfg.BlockListDir = dir
	cfg.Whitelist = whitelist
	return New(cfg)
}

func c18gDump(b *BlockList) []string {
	b.mu.RLock()
	defer b.mu.RUnlock()
	var out []string
	for k := range b.m {
		out = append(out, k)
	}
	for k := range b.wild {
		out = append(out, "*."+k)
	}
	sort.Strings(out)
	return out
}

// G1 - label boundaries: a '.' INSIDE a label (presentation form `\.`) is
// taken for a label separator. The two-label name  a\.b.com.  (labels "a.b"
// and "com") has exactly one parent, com. - yet it is reported blocked when
// the unrelated name b.com. is listed.
func TestC18Genuine_G1_EscapedDotIsNotALabelBoundary(t *testing.T) {
	// The name is an ordinary wire name: it survives pack/unpack and has 2 labels.
	q := new(dns.Msg)
	q.SetQuestion(`a\.b.com.`, dns.TypeA)
	wire, err := q.Pack()
	if err != nil {
		t.Fatal(err)
	}
	back := new(dns.Msg)
	if err := back.Unpack(wire); err != nil {
		t.Fatal(err)
	}
	if n := dns.CountLabel(back.Question[0].Name); n != 2 {
		t.Fatalf("harness: %q has %d labels", back.Question[0].Name, n)
	}
	qname := back.Question[0].Name // what the server sees: `a\.b.com.`

	t.Run("plain", func(t *testing.T) {
		b := c18gNew(t.TempDir())
		b.Set("b.com.")
		if b.Exists(qname) {
			t.Errorf("Exists(%q) = true with only b.com. listed; the name's only parent is com.", qname)
		}
		ch := middleware.NewChain([]middleware.Handler{})
		ch.Request = middleware.NewRequest(back)
		mw := mock.NewWriter("udp", "127.0.0.1:0")
		ch.Writer = mw
		b.ServeDNS(context.Background(), ch)
		if mw.Msg() != nil {
			t.Errorf("ServeDNS answered %q itself (null route %v) although neither it nor a parent is listed", qname, mw.Msg().Answer)
		}
	})
	t.Run("wildcard", func(t *testing.T) {
		b := c18gNew(t.TempDir())
		b.Set("*.b.com.")
		if b.Exists(qname) {
			t.Errorf("Exists(%q) = true with only *.b.com. listed", qname)
		}
	})
	t.Run("whitelist", func(t *testing.T) {
		// The other direction: a whitelist entry for b.com. exempts a name that
		// is not below it, so a listed parent (com.) no longer blocks it.
		b := c18gNew(t.TempDir(), "b.com.")
		b.Set("*.com.")
		if !b.Exists(qname) {
			t.Errorf("Exists(%q) = false: *.com. is listed and neither the name nor its only parent com. is whitelisted", qname)
		}
	})
}

// G2 - the persisted form is not a faithful encoding of the in-memory list:
// a key is written verbatim, one per line, and read back with the hosts-file
// parser (whitespace splitting, '#' comments, IP-then-names). Any key that
// contains one of those characters reloads as something else. The batch API
// accepts arbitrary JSON strings as keys.
func TestC18Genuine_G2_PersistedListDoesNotRoundTrip(t *testing.T) {
	for _, key := range []string{
		"0.0.0.0 ads.example.com", // a pasted hosts line
		"ads.example.com #tracker",
		"#ads.example.com",
		"one.example.com\ntwo.example.com",
		"ads.example.com\t",
	} {
		t.Run(fmt.Sprintf("%q", key), func(t *testing.T) {
			dir := t.TempDir()
			b := c18gNew(dir)
			if n := b.SetBatch([]string{key, "keep.example."}); n != 2 {
				t.Fatalf("SetBatch added %d", n)
			}
			mem := c18gDump(b)
			re := c18gDump(c18gNew(dir))
			if fmt.Sprint(mem) != fmt.Sprint(re) {
				t.Errorf("in-memory list %q reloads as %q", mem, re)
			}
		})
	}
	t.Run("long line poisons the rest of the file", func(t *testing.T) {
		dir := t.TempDir()
		b := c18gNew(dir)
		// plain entries are written before wildcard entries, so the wildcard
		// line always follows the over-long one.
		b.SetBatch([]string{strings.Repeat("a", 70000) + ".example.", "*.ads.example."})
		if !b.Exists("x.ads.example.") {
			t.Fatal("harness: wildcard not active in memory")
		}
		re := c18gNew(dir)
		if !re.Exists("x.ads.example.") {
			t.Errorf("after reload x.ads.example. is no longer blocked: the reload stopped at the over-long line (reloaded list has %d entries, memory has %d)", re.Length(), b.Length())
		}
	})
}

// G3 - the root. "." is a parent domain of every name, so a plain entry "."
// (or a wildcard "*.") lists every name, and a whitelist entry "." exempts
// every name. The hierarchy walks stop one label short and never look at ".".
func TestC18Genuine_G3_RootIsNeverTreatedAsAParent(t *testing.T) {
	t.Run("plain root", func(t *testing.T) {
		b := c18gNew(t.TempDir())
		b.Set(".")
		if !b.Exists(".") {
			t.Fatal("harness: root itself should be blocked")
		}
		if !b.Exists("example.com.") {
			t.Errorf("plain entry \".\" is listed, example.com. is below it, but Exists = false")
		}
	})
	t.Run("wildcard root", func(t *testing.T) {
		b := c18gNew(t.TempDir())
		b.Set("*.")
		if !b.Exists("example.com.") {
			t.Errorf("wildcard entry \"*.\" is listed, \".\" is a strict parent of example.com., but Exists = false")
		}
	})
	t.Run("whitelisted root", func(t *testing.T) {
		b := c18gNew(t.TempDir(), ".")
		if b.Set("example.com.") && b.Exists("example.com.") {
			t.Errorf("\".\" is whitelisted and is a parent of example.com., but example.com. could be listed and is blocked")
		}
	})
}

// G4 - API mutations made while <BlockListDir> does not exist are applied in
// memory and reported as successful, but persist() only logs the failed
// CreateTemp. Nothing re-persists later (refreshRemote creates the directory
// one second after start but does not save), so the state is lost on restart
// unless another mutation happens to follow.
func TestC18Genuine_G4_MutationBeforeDirectoryExistsIsNeverPersisted(t *testing.T) {
	dir := filepath.Join(t.TempDir(), "blacklists") // fresh install: not created yet
	b := c18gNew(dir)
	if !b.Set("ads.example.") {
		t.Fatal("Set refused")
	}
	if err := os.MkdirAll(dir, 0o750); err != nil { // what refreshRemote does a second later
		t.Fatal(err)
	}
	re := c18gNew(dir)
	if fmt.Sprint(c18gDump(b)) != fmt.Sprint(c18gDump(re)) {
		t.Errorf("Set reported success; in-memory list %q, reloaded list %q", c18gDump(b), c18gDump(re))
	}
}

// G5 - the directory re-read that refreshRemote performs (one second after
// start, after the downloads) is not ordered against API mutations. A Remove
// whose persist has not finished yet leaves the old "local" on disk; the
// re-read puts the removed entry back INTO MEMORY, after which the Remove's
// snapshot (without the entry) is written. All API calls have completed,
// memory says blocked, the persisted list says not listed.
func TestC18Genuine_G5_RefreshRereadUndoesAConcurrentRemove(t *testing.T) {
	dir := t.TempDir()
	b := c18gNew(dir)
	b.SetBatch([]string{"ads.example.", "keep.example."})

	b.saveMu.Lock() // a slow disk: the Remove below gets as far as persist()
	done := make(chan bool)
	go func() { done <- b.Remove("ads.example.") }()
	for i := 0; b.Exists("ads.example."); i++ { // wait for the in-memory removal
		if i > 5000 {
			t.Fatal("Remove never reached memory")
		}
		time.Sleep(time.Millisecond)
	}
	// exactly what refreshRemote runs after its downloads (it needs saveMu
	// only to delete stale persist temp files, and there are none)
	if err := b.readBlocklists(); err != nil {
		t.Fatal(err)
	}
	b.saveMu.Unlock()
	if !<-done {
		t.Fatal("Remove reported failure")
	}
	// Let a possibly still running persist finish.
	b.saveMu.Lock()
	b.saveMu.Unlock() //nolint:staticcheck

	mem, re := c18gDump(b), c18gDump(c18gNew(dir))
	if fmt.Sprint(mem) != fmt.Sprint(re) {
		t.Errorf("after Remove(ads.example.) returned true: in-memory list %q, persisted list reloads as %q", mem, re)
	}
	if b.Exists("ads.example.") {
		t.Errorf("ads.example. is still blocked after a successful Remove")
	}
}
