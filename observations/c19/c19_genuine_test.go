// Reproducers for three pre-existing C19 violations (they FAIL on the clean,
// unmodified checkout).
//
// Copy into:  middleware/resolver/   (package resolver; it uses that package's
//
//	hermetic test fixture: newHermeticNet, DelegateInsecure, ...)
//
// Run with:   go test -vet=off -count=1 -run 'TestC19Genuine_' ./middleware/resolver/
//
//	TestC19Genuine_ResolverDropsAuthorityScope
//	TestC19Genuine_SecondOPTRecordCarriesClientOptionsUpstream
//	TestC19Genuine_ConcurrentClientsInDifferentSubnetsShareOneUpstreamAnswer
//
// Every test drives the real chain edns -> cache -> iterative resolver against
// a loopback root (the package's hermetic fixture) and a loopback, unsigned,
// geo-aware authority for geo.test. defined below. See README.md next to this
// file for what each one shows.
package resolver

import (
	"context"
	"net"
	"strconv"
	"sync"
	"testing"
	"time"

	"github.com/miekg/dns"
	"github.com/semihalev/sdns/config"
	"github.com/semihalev/sdns/internal/mock"
	"github.com/semihalev/sdns/middleware"
	"github.com/semihalev/sdns/middleware/cache"
	"github.com/semihalev/sdns/middleware/edns"
)

const (
	c19Global   = "192.0.2.1"
	c19Tailored = "198.51.100.1"
)

// c19GeoAuthority is an unsigned authoritative server for one zone that
// tailors www.<zone> A to the client subnet it is shown, declaring a SCOPE
// equal to the SOURCE, and records every query it receives.
type c19GeoAuthority struct {
	zone string
	addr string
	// delay holds every www A reply back, so concurrent clients overlap.
	delay time.Duration
	// perSubnet makes the tailored address depend on the subnet shown.
	perSubnet bool

	mu       sync.Mutex
	received []*dns.Msg
}

func startC19GeoAuthority(t *testing.T, zone string) *c19GeoAuthority {
	t.Helper()
	pc, err := net.ListenPacket("udp", "127.0.0.1:0")
	if err != nil {
		t.Fatalf("listen: %v", err)
	}
	a := &c19GeoAuthority{zone: dns.Fqdn(zone), addr: pc.LocalAddr().String()}
	mux := dns.NewServeMux()
	mux.HandleFunc(".", func(w dns.ResponseWriter, r *dns.Msg) {
		a.mu.Lock()
		a.received = append(a.received, r.Copy())
		a.mu.Unlock()
		if len(r.Question) != 1 {
			return
		}
		q := r.Question[0]
		reply := new(dns.Msg)
		reply.SetReply(r)
		reply.Authoritative = true
		soa, _ := dns.NewRR(a.zone + " 300 IN SOA ns." + a.zone + " host." + a.zone + " 1 3600 600 86400 300")

		var sub *dns.EDNS0_SUBNET
		if opt := r.IsEdns0(); opt != nil {
			for _, o := range opt.Option {
				if s, ok := o.(*dns.EDNS0_SUBNET); ok {
					sub = s
				}
			}
		}
		switch {
		case q.Name == "www."+a.zone && q.Qtype == dns.TypeA:
			ip := c19Global
			o := new(dns.OPT)
			o.Hdr.Name = "."
			o.Hdr.Rrtype = dns.TypeOPT
			o.SetUDPSize(1232)
			if sub != nil && sub.SourceNetmask > 0 {
				ip = c19Tailored
				if a.perSubnet && sub.Family == 1 && len(sub.Address.To4()) == 4 {
					ip = "198.51.100." + strconv.Itoa(int(sub.Address.To4()[2]))
				}
				o.Option = append(o.Option, &dns.EDNS0_SUBNET{
					Code: dns.EDNS0SUBNET, Family: sub.Family,
					SourceNetmask: sub.SourceNetmask, SourceScope: sub.SourceNetmask,
					Address: sub.Address,
				})
			}
			rr, _ := dns.NewRR(q.Name + " 300 IN A " + ip)
			reply.Answer = []dns.RR{rr}
			reply.Extra = []dns.RR{o}
			if a.delay > 0 {
				time.Sleep(a.delay)
			}
		case q.Name == a.zone && q.Qtype == dns.TypeNS:
			rr, _ := dns.NewRR(a.zone + " 3600 IN NS ns." + a.zone)
			reply.Answer = []dns.RR{rr}
		case q.Name == a.zone && q.Qtype == dns.TypeSOA:
			reply.Answer = []dns.RR{soa}
		case q.Name == a.zone || q.Name == "www."+a.zone || q.Name == "ns."+a.zone:
			reply.Ns = []dns.RR{soa}
		default:
			reply.Rcode = dns.RcodeNameError
			reply.Ns = []dns.RR{soa}
		}
		_ = w.WriteMsg(reply)
	})
	srv := &dns.Server{Net: "udp", PacketConn: pc, Handler: mux}
	go func() { _ = srv.ActivateAndServe() }()
	time.Sleep(10 * time.Millisecond)
	t.Cleanup(func() { _ = srv.Shutdown() })
	return a
}

func (a *c19GeoAuthority) queriesFor(name string, qtype uint16) []*dns.Msg {
	a.mu.Lock()
	defer a.mu.Unlock()
	var out []*dns.Msg
	for _, m := range a.received {
		if len(m.Question) == 1 && m.Question[0].Name == name && m.Question[0].Qtype == qtype {
			out = append(out, m)
		}
	}
	return out
}

func c19Ask(t *testing.T, handlers []middleware.Handler, req *dns.Msg, client string) *dns.Msg {
	t.Helper()
	w := mock.NewWriter("udp", client)
	ch := middleware.NewChain(handlers)
	ch.Reset(w, req)
	ch.Next(context.Background())
	if !w.Written() {
		t.Fatalf("no response for %s", client)
	}
	return w.Msg()
}

func c19FirstA(m *dns.Msg) string {
	for _, rr := range m.Answer {
		if a, ok := rr.(*dns.A); ok {
			return a.A.String()
		}
	}
	return ""
}

func c19Pipeline(t *testing.T, ecsOn bool) (*c19GeoAuthority, []middleware.Handler) {
	t.Helper()
	hn := newHermeticNet(t)
	zone := hn.DelegateInsecure("geo.test.")
	auth := startC19GeoAuthority(t, "geo.test.")
	zone.server.addr = auth.addr

	cfg := hn.Config()
	cfg.RateLimit = 0
	if ecsOn {
		cfg.ECS = config.ECSConfig{Enabled: true, ForwardV4Max: 24, ForwardV6Max: 56, MinScopeV4: 24, MinScopeV6: 56}
	}
	h := hn.handlerWithConfig(cfg)
	c := cache.New(cfg)
	t.Cleanup(c.Stop)
	return auth, []middleware.Handler{edns.New(cfg), c, h}
}

func TestC19Genuine_ResolverDropsAuthorityScope(t *testing.T) {
	auth, handlers := c19Pipeline(t, true)

	first := new(dns.Msg)
	first.SetQuestion("www.geo.test.", dns.TypeA)
	first.RecursionDesired = true
	first.SetEdns0(1232, false)
	first.IsEdns0().Option = append(first.IsEdns0().Option, &dns.EDNS0_SUBNET{
		Code: dns.EDNS0SUBNET, Family: 1, SourceNetmask: 24, Address: net.ParseIP("203.0.113.0").To4(),
	})
	got := c19Ask(t, handlers, first, "203.0.113.5:40000")
	if got.Rcode != dns.RcodeSuccess || c19FirstA(got) != c19Tailored {
		t.Fatalf("first client: rcode=%s A=%q, want the tailored answer %q\n%v", dns.RcodeToString[got.Rcode], c19FirstA(got), c19Tailored, got)
	}
	seen := auth.queriesFor("www.geo.test.", dns.TypeA)
	t.Logf("authority saw %d A queries", len(seen))

	second := new(dns.Msg)
	second.SetQuestion("www.geo.test.", dns.TypeA)
	second.RecursionDesired = true
	second.SetEdns0(1232, false)
	got = c19Ask(t, handlers, second, "198.18.7.9:40000")
	if a := c19FirstA(got); a != c19Global {
		t.Errorf("client 198.18.7.9 (no ECS) was served %q, which the authority scoped to 203.0.113.0/24; want %q", a, c19Global)
	}
	if n := len(auth.queriesFor("www.geo.test.", dns.TypeA)); n != len(seen)+1 {
		t.Errorf("authority A queries went from %d to %d; the second client was answered from a cache entry that should have been scoped", len(seen), n)
	}
}

func TestC19Genuine_SecondOPTRecordCarriesClientOptionsUpstream(t *testing.T) {
	auth, handlers := c19Pipeline(t, false) // ECS forwarding disabled

	req := new(dns.Msg)
	req.SetQuestion("www.geo.test.", dns.TypeA)
	req.RecursionDesired = true
	hidden := new(dns.OPT)
	hidden.Hdr.Name = "."
	hidden.Hdr.Rrtype = dns.TypeOPT
	hidden.SetUDPSize(1232)
	hidden.Option = []dns.EDNS0{
		&dns.EDNS0_SUBNET{Code: dns.EDNS0SUBNET, Family: 1, SourceNetmask: 32, Address: net.ParseIP("203.0.113.77").To4()},
		&dns.EDNS0_LOCAL{Code: 65001, Data: []byte("client-private")},
	}
	plain := new(dns.OPT)
	plain.Hdr.Name = "."
	plain.Hdr.Rrtype = dns.TypeOPT
	plain.SetUDPSize(1232)
	req.Extra = []dns.RR{hidden, plain}

	// Through the wire form, as a client would send it.
	raw, err := req.Pack()
	if err != nil {
		t.Fatalf("pack: %v", err)
	}
	wireReq := new(dns.Msg)
	if err := wireReq.Unpack(raw); err != nil {
		t.Fatalf("unpack: %v", err)
	}

	got := c19Ask(t, handlers, wireReq, "203.0.113.77:40000")
	t.Logf("client reply rcode=%s A=%q", dns.RcodeToString[got.Rcode], c19FirstA(got))

	for _, m := range auth.received {
		for _, rr := range m.Extra {
			opt, ok := rr.(*dns.OPT)
			if !ok {
				continue
			}
			for _, o := range opt.Option {
				switch v := o.(type) {
				case *dns.EDNS0_SUBNET:
					t.Errorf("ECS forwarding is disabled, yet the authority received %s in a query for %s", v.String(), m.Question[0].Name)
				case *dns.EDNS0_LOCAL:
					t.Errorf("a client-supplied option (code %d, %q) reached the authority in a query for %s", v.Code, v.Data, m.Question[0].Name)
				}
			}
		}
	}
}

func TestC19Genuine_ConcurrentClientsInDifferentSubnetsShareOneUpstreamAnswer(t *testing.T) {
	auth, handlers := c19Pipeline(t, true)
	auth.perSubnet = true
	auth.delay = 400 * time.Millisecond

	ask := func(subnet, client string) *dns.Msg {
		m := new(dns.Msg)
		m.SetQuestion("www.geo.test.", dns.TypeA)
		m.RecursionDesired = true
		m.SetEdns0(1232, false)
		m.IsEdns0().Option = append(m.IsEdns0().Option, &dns.EDNS0_SUBNET{
			Code: dns.EDNS0SUBNET, Family: 1, SourceNetmask: 24, Address: net.ParseIP(subnet).To4(),
		})
		return c19Ask(t, handlers, m, client)
	}

	// Warm the delegation so both clients go straight to the zone's server.
	warm := new(dns.Msg)
	warm.SetQuestion("geo.test.", dns.TypeSOA)
	warm.RecursionDesired = true
	warm.SetEdns0(1232, false)
	c19Ask(t, handlers, warm, "192.0.2.200:40000")

	var wg sync.WaitGroup
	var gotA, gotB *dns.Msg
	wg.Add(2)
	go func() { defer wg.Done(); gotA = ask("203.0.113.0", "203.0.113.5:40000") }()
	go func() {
		defer wg.Done()
		time.Sleep(100 * time.Millisecond)
		gotB = ask("198.18.7.0", "198.18.7.9:40000")
	}()
	wg.Wait()

	if a := c19FirstA(gotA); a != "198.51.100.113" {
		t.Fatalf("client in 203.0.113.0/24 got %q, want 198.51.100.113", a)
	}
	if a := c19FirstA(gotB); a != "198.51.100.7" {
		t.Errorf("client in 198.18.7.0/24 got %q - the answer the authority scoped to 203.0.113.0/24; want 198.51.100.7", a)
	}
	var subnets []string
	for _, m := range auth.queriesFor("www.geo.test.", dns.TypeA) {
		if opt := m.IsEdns0(); opt != nil {
			for _, o := range opt.Option {
				if s, ok := o.(*dns.EDNS0_SUBNET); ok {
					subnets = append(subnets, s.String())
				}
			}
		}
	}
	t.Logf("subnets the authority was shown: %v", subnets)
}
