// Companion to sweep_model_test.go: random ip6.arpa names (conformant,
// perturbed suffix, non-zero u octet, well-known-prefix exclusions) against
// an independent RFC 6052 extraction. Uses refEmbed / refArpa / cidrHas /
// randV4 / legalBits / defaultExclA from sweep_model_test.go, so copy both.
//
// Copy into:  middleware/dns64/   (package dns64)
// Run with:   go test -vet=off -count=1 -run 'TestC20ModelPTRSweep' ./middleware/dns64/
//
// PASSES on the unmodified tree (no PTR-side violation found).
package dns64

import (
	"context"
	"fmt"
	"math/rand"
	"net"
	"strings"
	"testing"

	"github.com/miekg/dns"
	"github.com/semihalev/sdns/internal/mock"
	"github.com/semihalev/sdns/middleware"
)

func TestC20ModelPTRSweep(t *testing.T) {
	r := rand.New(rand.NewSource(7))
	cats := map[string]int{}
	first := map[string]string{}
	for i := 0; i < 50000; i++ {
		bits := legalBits[r.Intn(len(legalBits))]
		ip := make(net.IP, 16)
		for j := range ip {
			ip[j] = byte(r.Intn(256))
		}
		ip[0] = 0x20
		if bits == 96 {
			ip[8] = 0
		}
		ip = ip.Mask(net.CIDRMask(bits, 128))
		pstr := fmt.Sprintf("%s/%d", ip, bits)
		wk := r.Intn(4) == 0
		if wk {
			pstr = "64:ff9b::/96"
			ip = net.ParseIP("64:ff9b::")
			bits = 96
		}
		cfg := baseConfig()
		cfg.DNS64.Prefixes = []string{pstr}
		cfg.DNS64.ExcludeANetworks = nil
		d := New(cfg)
		d.queryer = &stubQueryer{}
		// build address: either conformant or perturbed
		v := randV4(r)
		addr := refEmbed(ip, bits, v)
		mode := r.Intn(4)
		conform := true
		switch mode {
		case 1: // perturb a random byte outside prefix
			k := bits/8 + r.Intn(16-bits/8)
			old := addr[k]
			addr[k] = byte(r.Intn(256))
			if addr[k] != old {
				// recompute whether still conformant: re-extract by reference
				conform = false
			}
		case 2: // set u octet
			if bits != 96 {
				addr[8] = byte(1 + r.Intn(255))
				conform = false
			}
		}
		// reference extraction: find v4 such that refEmbed == addr
		var want string
		if !conform {
			// brute: derive v4 candidate by reading bits, then check re-embed equality
			var cand [4]byte
			pos := bits
			for b := 0; b < 32; b++ {
				for pos >= 64 && pos < 72 {
					pos++
				}
				bit := (addr[pos/8] >> (7 - uint(pos%8))) & 1
				cand[b/8] |= bit << (7 - uint(b%8))
				pos++
			}
			if refEmbed(ip, bits, cand).Equal(addr) {
				conform = true
				v = cand
			}
		}
		excluded := wk && cidrHas(defaultExclA, net.IP(v[:]))
		if conform && !excluded {
			want = fmt.Sprintf("%d.%d.%d.%d.in-addr.arpa.", v[3], v[2], v[1], v[0])
		}
		name := refArpa(addr)
		if r.Intn(2) == 0 {
			name = strings.ToUpper(name)
		}
		nx := new(dns.Msg)
		nx.SetQuestion(name, dns.TypePTR)
		nx.Response = true
		nx.Rcode = dns.RcodeNameError
		ch := middleware.NewChain([]middleware.Handler{d, &stubAnswerer{msg: nx}})
		mw := mock.NewWriter("udp", "203.0.113.5:999")
		req := new(dns.Msg)
		req.SetQuestion(name, dns.TypePTR)
		ch.Reset(mw, req)
		d.ServeDNS(context.Background(), ch)
		pr := mw.Msg()
		got := ""
		if pr != nil && len(pr.Answer) > 0 {
			if c, ok := pr.Answer[0].(*dns.CNAME); ok {
				got = c.Target
			}
		}
		if got != want {
			cat := "ptr-mismatch"
			if want == "" {
				cat = "ptr-translated-nonconformant"
			} else if got == "" {
				cat = "ptr-not-translated"
			}
			cats[cat]++
			if _, ok := first[cat]; !ok {
				first[cat] = fmt.Sprintf("prefix %s addr %s name %s got %q want %q", pstr, addr, name, got, want)
			}
		}
	}
	for k, n := range cats {
		t.Errorf("%s: %d: %s", k, n, first[k])
	}
}
