// Model-based randomised sweep used to look for pre-existing C20 violations.
// An independent reference (bitwise RFC 6052 embedding, family-strict CIDR
// containment, the property's gate list) is compared with the package over
// 60000 random (config, client, flags, upstream AAAA reply, A reply) tuples,
// then every synthesised AAAA is sent back as an ip6.arpa PTR query.
//
// Copy into:  middleware/dns64/   (package dns64)
// Run with:   go test -vet=off -count=1 -run 'TestC20ModelSweep' ./middleware/dns64/
//
// On the unmodified tree it FAILS with exactly one category,
// "ttl-above-negttl" (finding G1 in README.md); every other category is
// clean. With OUT/5 or OUT/6 applied it additionally reports
// "synth-when-not-allowed" and "passthrough-rcode-changed".
package dns64

import (
	"context"
	"fmt"
	"math/rand"
	"net"
	"sort"
	"strings"
	"testing"

	"github.com/miekg/dns"
	"github.com/semihalev/sdns/config"
	"github.com/semihalev/sdns/internal/dnsutil"
	"github.com/semihalev/sdns/internal/mock"
	"github.com/semihalev/sdns/middleware"
)

// ---- independent reference ----

func refEmbed(prefix net.IP, bits int, v4 [4]byte) net.IP {
	out := make([]byte, 16)
	setBit := func(i int, b byte) {
		if b != 0 {
			out[i/8] |= 1 << (7 - uint(i%8))
		}
	}
	getBit := func(buf []byte, i int) byte { return (buf[i/8] >> (7 - uint(i%8))) & 1 }
	for i := 0; i < bits; i++ {
		setBit(i, getBit(prefix, i))
	}
	pos := bits
	for i := 0; i < 32; i++ {
		for pos >= 64 && pos < 72 {
			pos++
		}
		setBit(pos, getBit(v4[:], i))
		pos++
	}
	return out
}

func refArpa(ip net.IP) string {
	var sb strings.Builder
	for i := 15; i >= 0; i-- {
		fmt.Fprintf(&sb, "%x.%x.", ip[i]&0xf, ip[i]>>4)
	}
	sb.WriteString("ip6.arpa.")
	return sb.String()
}

type refPrefix struct {
	ip   net.IP
	bits int
	wk   bool
	str  string
}

var clientStrict bool

func cidrHas(list []string, ip net.IP) bool {
	for _, s := range list {
		_, n, err := net.ParseCIDR(s)
		if err != nil {
			continue
		}
		// family-strict containment
		ones, bits := n.Mask.Size()
		var cand []byte
		if bits == 32 {
			cand = ip.To4()
			if cand == nil || len(ip) == 16 && !isMapped(ip) {
				continue
			}
		} else {
			if clientStrict && ip.To4() != nil {
				continue
			}
			cand = ip.To16()
		}
		base := n.IP
		if bits == 128 {
			base = n.IP.To16()
		} else {
			base = n.IP.To4()
		}
		ok := true
		for i := 0; i < ones; i++ {
			if (cand[i/8]>>(7-uint(i%8)))&1 != (base[i/8]>>(7-uint(i%8)))&1 {
				ok = false
				break
			}
		}
		if ok {
			return true
		}
	}
	return false
}

func isMapped(ip net.IP) bool {
	if len(ip) != 16 {
		return false
	}
	for i := 0; i < 10; i++ {
		if ip[i] != 0 {
			return false
		}
	}
	return ip[10] == 0xff && ip[11] == 0xff
}

var dnssecEDE = map[uint16]bool{1: true, 2: true, 5: true, 6: true, 7: true, 8: true, 9: true, 10: true, 11: true, 12: true, 27: true}

var defaultExclA = []string{"0.0.0.0/8", "10.0.0.0/8", "100.64.0.0/10", "127.0.0.0/8", "169.254.0.0/16", "172.16.0.0/12", "192.0.0.0/24", "192.0.2.0/24", "192.88.99.0/24", "192.168.0.0/16", "198.18.0.0/15", "198.51.100.0/24", "203.0.113.0/24", "224.0.0.0/4", "240.0.0.0/4", "255.255.255.255/32"}

type huntCase struct {
	cfg        *config.Config
	prefixes   []refPrefix
	exclA      []string
	exclAAAA   []string
	clientNets []string
	zones      []string

	client     string
	clientIP   net.IP
	rd, cd, ad bool
	edns, do   bool
	qname      string
	up         *dns.Msg
	aResp      *dns.Msg
	desc       string
}

func randV4(r *rand.Rand) [4]byte {
	switch r.Intn(8) {
	case 0:
		return [4]byte{10, byte(r.Intn(256)), byte(r.Intn(256)), byte(r.Intn(256))}
	case 1:
		return [4]byte{192, 168, byte(r.Intn(256)), byte(r.Intn(256))}
	case 2:
		return [4]byte{byte(r.Intn(256)), byte(r.Intn(256)), byte(r.Intn(256)), 0}
	case 3:
		return [4]byte{0, 0, 0, byte(r.Intn(256))}
	case 4:
		return [4]byte{255, 255, 255, 255}
	}
	return [4]byte{byte(r.Intn(256)), byte(r.Intn(256)), byte(r.Intn(256)), byte(r.Intn(256))}
}

var legalBits = []int{32, 40, 48, 56, 64, 96}

func genCase(r *rand.Rand) *huntCase {
	hc := &huntCase{}
	cfg := &config.Config{}
	cfg.DNS64.Enabled = true
	// prefixes
	np := 1 + r.Intn(3)
	var raws []string
	for i := 0; i < np; i++ {
		switch r.Intn(10) {
		case 0:
			raws = append(raws, "64:ff9b::/96")
			hc.prefixes = append(hc.prefixes, refPrefix{ip: net.ParseIP("64:ff9b::"), bits: 96, wk: true, str: "64:ff9b::/96"})
		case 1: // illegal
			ill := []string{"2001:db8::/49", "2001:db8::1/128", "::/0", "192.0.2.0/24", "2001:db8:0:0:ff00::/96", "garbage", "2001:db8::/33"}
			raws = append(raws, ill[r.Intn(len(ill))])
		default:
			bits := legalBits[r.Intn(len(legalBits))]
			ip := make(net.IP, 16)
			ip[0] = 0x20
			ip[1] = 0x01
			ip[2] = byte(i + 1) // distinct → no overlap
			for j := 3; j < 16; j++ {
				ip[j] = byte(r.Intn(256))
			}
			if bits == 96 {
				ip[8] = 0
			}
			mask := net.CIDRMask(bits, 128)
			ip = ip.Mask(mask)
			s := fmt.Sprintf("%s/%d", ip.String(), bits)
			raws = append(raws, s)
			hc.prefixes = append(hc.prefixes, refPrefix{ip: ip, bits: bits, str: s})
		}
	}
	cfg.DNS64.Prefixes = raws
	if len(hc.prefixes) == 0 {
		hc.prefixes = []refPrefix{{ip: net.ParseIP("64:ff9b::"), bits: 96, wk: true, str: "64:ff9b::/96"}}
	}
	hasWK := false
	for _, p := range hc.prefixes {
		if p.wk {
			hasWK = true
		}
	}
	switch r.Intn(3) {
	case 0:
		cfg.DNS64.ExcludeANetworks = nil
		if hasWK {
			hc.exclA = defaultExclA
		}
	case 1:
		cfg.DNS64.ExcludeANetworks = []string{}
	case 2:
		cfg.DNS64.ExcludeANetworks = []string{"10.0.0.0/8", "192.168.0.0/16", "0.0.0.0/8"}
		hc.exclA = cfg.DNS64.ExcludeANetworks
	}
	switch r.Intn(3) {
	case 0:
		hc.exclAAAA = []string{"::ffff:0:0/96"}
	case 1:
		cfg.DNS64.ExcludeAAAANetworks = []string{}
	case 2:
		cfg.DNS64.ExcludeAAAANetworks = []string{"::ffff:0:0/96", "2001:db8:bad::/48"}
		hc.exclAAAA = cfg.DNS64.ExcludeAAAANetworks
	}
	switch r.Intn(4) {
	case 0:
		cfg.DNS64.ClientNetworks = []string{"2001:db8:c1::/48", "203.0.113.0/24"}
	case 1:
		cfg.DNS64.ClientNetworks = []string{"::/0"}
	case 2:
		cfg.DNS64.ClientNetworks = []string{"0.0.0.0/0"}
	}
	hc.clientNets = cfg.DNS64.ClientNetworks
	switch r.Intn(3) {
	case 0:
		cfg.DNS64.ExcludeZones = []string{"Excluded.Example", "corp.test."}
		hc.zones = []string{"excluded.example.", "corp.test."}
	}
	hc.cfg = cfg

	clients := []string{"203.0.113.5:5300", "198.51.100.9:5300", "[2001:db8:c1::7]:5300", "[2001:db8:ffff::7]:5300"}
	hc.client = clients[r.Intn(len(clients))]
	host, _, _ := net.SplitHostPort(hc.client)
	hc.clientIP = net.ParseIP(host)
	hc.rd = r.Intn(6) != 0
	hc.cd = r.Intn(6) == 0
	hc.ad = r.Intn(3) == 0
	hc.edns = r.Intn(4) != 0
	hc.do = r.Intn(2) == 0
	names := []string{"host.example.org.", "HoSt.Example.ORG.", "www.excluded.example.", "WWW.EXCLUDED.EXAMPLE.", "notexcluded.example.", "a.corp.test.", "xcorp.test."}
	hc.qname = names[r.Intn(len(names))]

	// upstream AAAA response
	up := new(dns.Msg)
	up.SetQuestion(hc.qname, dns.TypeAAAA)
	up.Response = true
	up.RecursionAvailable = true
	rcodes := []int{dns.RcodeSuccess, dns.RcodeSuccess, dns.RcodeSuccess, dns.RcodeNameError, dns.RcodeServerFailure, dns.RcodeServerFailure, dns.RcodeRefused, dns.RcodeFormatError}
	up.Rcode = rcodes[r.Intn(len(rcodes))]
	up.AuthenticatedData = r.Intn(2) == 0
	if r.Intn(5) != 0 {
		up.SetEdns0(4096, true)
		if up.Rcode == dns.RcodeServerFailure || r.Intn(6) == 0 {
			codes := []uint16{6, 7, 9, 12, 27, 1, 13, 22, 23, 15, 0, 3}
			n := r.Intn(3)
			for i := 0; i < n; i++ {
				opt := up.IsEdns0()
				opt.Option = append(opt.Option, &dns.EDNS0_EDE{InfoCode: codes[r.Intn(len(codes))]})
			}
		}
	}
	owner := hc.qname
	if up.Rcode == dns.RcodeSuccess || up.Rcode == dns.RcodeNameError {
		if r.Intn(4) == 0 {
			c := &dns.CNAME{Hdr: dns.RR_Header{Name: owner, Rrtype: dns.TypeCNAME, Class: dns.ClassINET, Ttl: uint32(r.Intn(500))}, Target: "target.example.net."}
			up.Answer = append(up.Answer, c)
			owner = "target.example.net."
		}
	}
	if up.Rcode == dns.RcodeSuccess {
		switch r.Intn(5) {
		case 0: // native AAAA
			up.Answer = append(up.Answer, &dns.AAAA{Hdr: dns.RR_Header{Name: owner, Rrtype: dns.TypeAAAA, Class: dns.ClassINET, Ttl: 77}, AAAA: net.ParseIP("2001:db8:600d::1")})
		case 1: // excluded only
			up.Answer = append(up.Answer, &dns.AAAA{Hdr: dns.RR_Header{Name: owner, Rrtype: dns.TypeAAAA, Class: dns.ClassINET, Ttl: 77}, AAAA: net.ParseIP("::ffff:192.0.2.1")})
			if r.Intn(2) == 0 {
				up.Answer = append(up.Answer, &dns.AAAA{Hdr: dns.RR_Header{Name: owner, Rrtype: dns.TypeAAAA, Class: dns.ClassINET, Ttl: 77}, AAAA: net.ParseIP("2001:db8:bad::5")})
			}
		case 2: // mixed
			up.Answer = append(up.Answer, &dns.AAAA{Hdr: dns.RR_Header{Name: owner, Rrtype: dns.TypeAAAA, Class: dns.ClassINET, Ttl: 77}, AAAA: net.ParseIP("::ffff:192.0.2.1")})
			up.Answer = append(up.Answer, &dns.AAAA{Hdr: dns.RR_Header{Name: owner, Rrtype: dns.TypeAAAA, Class: dns.ClassINET, Ttl: 77}, AAAA: net.ParseIP("2001:db8:600d::2")})
		}
	}
	if r.Intn(3) != 0 && (up.Rcode == dns.RcodeSuccess || up.Rcode == dns.RcodeNameError) {
		ttls := []uint32{0, 1, 30, 300, 3600}
		soa := &dns.SOA{Hdr: dns.RR_Header{Name: "example.org.", Rrtype: dns.TypeSOA, Class: dns.ClassINET, Ttl: ttls[r.Intn(len(ttls))]},
			Ns: "ns.example.org.", Mbox: "h.example.org.", Serial: 1, Refresh: 2, Retry: 3, Expire: 4, Minttl: ttls[r.Intn(len(ttls))]}
		up.Ns = append(up.Ns, soa)
	}
	if r.Intn(15) == 0 {
		up.Truncated = true
	}
	hc.up = up

	// A response
	a := new(dns.Msg)
	a.SetQuestion(hc.qname, dns.TypeA)
	a.Response = true
	a.RecursionAvailable = true
	arc := []int{dns.RcodeSuccess, dns.RcodeSuccess, dns.RcodeSuccess, dns.RcodeSuccess, dns.RcodeNameError, dns.RcodeServerFailure, dns.RcodeRefused}
	a.Rcode = arc[r.Intn(len(arc))]
	a.AuthenticatedData = r.Intn(2) == 0
	aowner := hc.qname
	if r.Intn(3) == 0 {
		if r.Intn(2) == 0 {
			a.Answer = append(a.Answer, &dns.CNAME{Hdr: dns.RR_Header{Name: aowner, Rrtype: dns.TypeCNAME, Class: dns.ClassINET, Ttl: uint32(r.Intn(5000))}, Target: "v4.target.example.net."})
			aowner = "v4.target.example.net."
		} else {
			// DNAME at parent
			parent := aowner[strings.Index(aowner, ".")+1:]
			first := aowner[:strings.Index(aowner, ".")]
			a.Answer = append(a.Answer, &dns.DNAME{Hdr: dns.RR_Header{Name: parent, Rrtype: dns.TypeDNAME, Class: dns.ClassINET, Ttl: uint32(r.Intn(5000))}, Target: "moved.example.net."})
			a.Answer = append(a.Answer, &dns.CNAME{Hdr: dns.RR_Header{Name: aowner, Rrtype: dns.TypeCNAME, Class: dns.ClassINET, Ttl: 0}, Target: first + ".moved.example.net."})
			aowner = first + ".moved.example.net."
		}
	}
	if a.Rcode == dns.RcodeSuccess {
		n := r.Intn(4)
		for i := 0; i < n; i++ {
			v := randV4(r)
			a.Answer = append(a.Answer, &dns.A{Hdr: dns.RR_Header{Name: aowner, Rrtype: dns.TypeA, Class: dns.ClassINET, Ttl: uint32(r.Intn(1000))}, A: net.IPv4(v[0], v[1], v[2], v[3])})
		}
		if r.Intn(5) == 0 {
			a.Answer = append(a.Answer, &dns.RRSIG{Hdr: dns.RR_Header{Name: aowner, Rrtype: dns.TypeRRSIG, Class: dns.ClassINET, Ttl: 5}, TypeCovered: dns.TypeA, SignerName: "example.net.", Signature: "AAAA"})
		}
	}
	hc.aResp = a
	return hc
}

type violation struct {
	cat string
	msg string
}

func runCase(t *testing.T, hc *huntCase) []violation {
	var out []violation
	add := func(cat, f string, args ...any) {
		out = append(out, violation{cat, fmt.Sprintf(f, args...)})
	}
	d := New(hc.cfg)
	if d == nil {
		add("nil-handler", "New returned nil")
		return out
	}
	q := &stubQueryer{resp: hc.aResp.Copy()}
	d.queryer = q

	ch := middleware.NewChain([]middleware.Handler{d, &stubAnswerer{msg: hc.up}})
	mw := mock.NewWriter("udp", hc.client)
	req := new(dns.Msg)
	req.SetQuestion(hc.qname, dns.TypeAAAA)
	req.RecursionDesired = hc.rd
	req.CheckingDisabled = hc.cd
	req.AuthenticatedData = hc.ad
	if hc.edns {
		req.SetEdns0(4096, hc.do)
	}
	ch.Reset(mw, req)
	d.ServeDNS(context.Background(), ch)
	resp := mw.Msg()
	if resp == nil {
		add("no-reply", "no reply")
		return out
	}

	// reference gates
	clientStrict = true
	eligible := len(hc.clientNets) == 0 || cidrHas(hc.clientNets, hc.clientIP)
	clientStrict = false
	lower := strings.ToLower(hc.qname)
	zoneEx := false
	for _, z := range hc.zones {
		if lower == z || strings.HasSuffix(lower, "."+z) {
			zoneEx = true
		}
	}
	up := hc.up
	dnssecFail, cachedFail := false, false
	if up.Rcode == dns.RcodeServerFailure {
		if opt := up.IsEdns0(); opt != nil {
			for _, o := range opt.Option {
				if e, ok := o.(*dns.EDNS0_EDE); ok {
					if dnssecEDE[e.InfoCode] {
						dnssecFail = true
					}
					if e.InfoCode == 13 {
						cachedFail = true
					}
				}
			}
		}
	}
	nativeKept, nativeStripped := 0, 0
	upAAAA := map[string]bool{}
	for _, rr := range up.Answer {
		if x, ok := rr.(*dns.AAAA); ok {
			upAAAA[x.AAAA.String()] = true
			if cidrHas(hc.exclAAAA, x.AAAA) {
				nativeStripped++
			} else {
				nativeKept++
			}
		}
	}
	allowed := hc.rd && !hc.cd && eligible && !zoneEx && !up.Truncated &&
		up.Rcode != dns.RcodeNameError && !dnssecFail && !cachedFail &&
		!(up.Rcode == dns.RcodeSuccess && nativeKept > 0)

	// expected synthesised set
	type exp struct{ owner string }
	expected := map[string]string{} // addr -> owner
	minA := uint32(1<<32 - 1)
	var terminal string
	for _, rr := range hc.aResp.Answer {
		if a, ok := rr.(*dns.A); ok {
			terminal = a.Hdr.Name
			if a.Hdr.Ttl < minA {
				minA = a.Hdr.Ttl
			}
			var v [4]byte
			copy(v[:], a.A.To4())
			for _, p := range hc.prefixes {
				if p.wk && cidrHas(hc.exclA, net.IP(v[:])) {
					continue
				}
				expected[refEmbed(p.ip, p.bits, v).String()] = a.Hdr.Name
			}
		}
	}
	_ = terminal
	if hc.aResp.Rcode != dns.RcodeSuccess {
		expected = map[string]string{}
	}

	negTTL := uint32(1<<32 - 1)
	hasSOA := false
	for _, rr := range up.Ns {
		if s, ok := rr.(*dns.SOA); ok {
			hasSOA = true
			negTTL = s.Hdr.Ttl
			if s.Minttl < negTTL {
				negTTL = s.Minttl
			}
			break
		}
	}

	// inspect reply
	synthSeen := map[string]bool{}
	replyAAAA := map[string]bool{}
	for _, rr := range resp.Answer {
		x, ok := rr.(*dns.AAAA)
		if !ok {
			continue
		}
		s := x.AAAA.String()
		replyAAAA[s] = true
		if upAAAA[s] {
			continue
		}
		// synthesised record
		synthSeen[s] = true
		if !allowed {
			add("synth-when-not-allowed", "synth %s though rd=%v cd=%v eligible=%v zoneEx=%v tc=%v rcode=%d dnssec=%v cached=%v nativeKept=%d", s, hc.rd, hc.cd, eligible, zoneEx, up.Truncated, up.Rcode, dnssecFail, cachedFail, nativeKept)
		}
		ow, ok := expected[s]
		if !ok {
			add("synth-wrong-address", "synth %s not an RFC6052 embedding of any A under %v", s, hc.prefixes)
		} else if !strings.EqualFold(ow, x.Hdr.Name) {
			add("synth-wrong-owner", "synth %s owner %s want %s", s, x.Hdr.Name, ow)
		}
		if x.Hdr.Ttl > minA {
			add("ttl-above-A", "synth ttl %d > min A ttl %d", x.Hdr.Ttl, minA)
		}
		if hasSOA && x.Hdr.Ttl > negTTL {
			add("ttl-above-negttl", "synth ttl %d > negative ttl %d (soa=%v)", x.Hdr.Ttl, negTTL, up.Ns[0])
		}
		if !hasSOA && x.Hdr.Ttl > 600 {
			add("ttl-above-600", "synth ttl %d", x.Hdr.Ttl)
		}
	}
	if len(synthSeen) > 0 {
		if resp.AuthenticatedData {
			add("ad-on-synth", "AD set on synthesised reply")
		}
		if resp.Rcode != dns.RcodeSuccess {
			add("synth-rcode", "synth with rcode %d", resp.Rcode)
		}
		for s := range expected {
			if !synthSeen[s] {
				add("synth-incomplete", "missing %s", s)
			}
		}
	} else if allowed && len(expected) > 0 {
		add("no-synth-when-expected", "allowed, expected %d records, reply rcode=%d answers=%v", len(expected), resp.Rcode, resp.Answer)
	}
	// AAAA-filtered reply: the reply's AAAA set differs from upstream's
	filtered := false
	for s := range upAAAA {
		if !replyAAAA[s] {
			filtered = true
		}
	}
	if filtered && resp.AuthenticatedData {
		add("ad-on-filtered", "AD set on filtered reply")
	}
	if !allowed && !filtered && len(synthSeen) == 0 {
		// must be verbatim pass-through (or only filter if gates passed up to AAAA filter)
		if resp.Rcode != up.Rcode {
			add("passthrough-rcode-changed", "rcode %d -> %d", up.Rcode, resp.Rcode)
		}
	}
	// excluded AAAA leaking on a path where filter should apply
	gatesOK := hc.rd && !hc.cd && eligible && !zoneEx && !up.Truncated && up.Rcode == dns.RcodeSuccess
	if gatesOK {
		for s := range replyAAAA {
			if cidrHas(hc.exclAAAA, net.ParseIP(s)) {
				add("excluded-aaaa-leak", "%s in reply", s)
			}
		}
	}
	_ = nativeStripped
	_ = dnsutil.GetEDE

	// PTR round trip for each synthesised AAAA
	for s := range synthSeen {
		ip := net.ParseIP(s).To16()
		name := refArpa(ip)
		pq := &stubQueryer{}
		d.queryer = pq
		nx := new(dns.Msg)
		nx.SetQuestion(name, dns.TypePTR)
		nx.Response = true
		nx.Rcode = dns.RcodeNameError
		ch2 := middleware.NewChain([]middleware.Handler{d, &stubAnswerer{msg: nx}})
		mw2 := mock.NewWriter("udp", hc.client)
		preq := new(dns.Msg)
		// mixed case name
		if len(s)%2 == 0 {
			preq.SetQuestion(strings.ToUpper(name), dns.TypePTR)
		} else {
			preq.SetQuestion(name, dns.TypePTR)
		}
		preq.RecursionDesired = true
		ch2.Reset(mw2, preq)
		d.ServeDNS(context.Background(), ch2)
		pr := mw2.Msg()
		// which v4 was it?
		var want string
		for _, rr := range hc.aResp.Answer {
			if a, ok := rr.(*dns.A); ok {
				var v [4]byte
				copy(v[:], a.A.To4())
				for _, p := range hc.prefixes {
					if refEmbed(p.ip, p.bits, v).String() == s {
						want = fmt.Sprintf("%d.%d.%d.%d.in-addr.arpa.", v[3], v[2], v[1], v[0])
					}
				}
			}
		}
		if pr == nil || len(pr.Answer) == 0 {
			add("ptr-not-translated", "PTR %s not translated (want %s)", name, want)
			continue
		}
		c, ok := pr.Answer[0].(*dns.CNAME)
		if !ok || c.Target != want {
			add("ptr-wrong-target", "PTR %s -> %v want %s", name, pr.Answer[0], want)
		}
		if pr.AuthenticatedData {
			add("ptr-ad", "AD on PTR")
		}
	}
	return out
}

func TestC20ModelSweep(t *testing.T) {
	r := rand.New(rand.NewSource(20260926))
	cats := map[string]int{}
	first := map[string]string{}
	for i := 0; i < 60000; i++ {
		hc := genCase(r)
		for _, v := range runCase(t, hc) {
			cats[v.cat]++
			if _, ok := first[v.cat]; !ok {
				first[v.cat] = fmt.Sprintf("case %d: %s\n  cfg=%+v\n  client=%s rd=%v cd=%v ad=%v edns=%v qname=%s\n  up=%s\n  a=%s", i, v.msg, hc.cfg.DNS64, hc.client, hc.rd, hc.cd, hc.ad, hc.edns, hc.qname, hc.up.String(), hc.aResp.String())
			}
		}
	}
	var keys []string
	for k := range cats {
		keys = append(keys, k)
	}
	sort.Strings(keys)
	for _, k := range keys {
		t.Errorf("category %s: %d\n%s", k, cats[k], first[k])
	}
}
