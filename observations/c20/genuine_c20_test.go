// Reproducers for PRE-EXISTING violations of property C20 in the UNMODIFIED
// tree (no seeded patch applied). Each test below FAILS on a clean checkout.
//
// Copy into:  middleware/dns64/   (package dns64; reuses the helpers in the
//
//	package's own dns64_test.go: baseConfig, makeChain,
//	stubAnswerer, stubQueryer, noDataMsg, aRespMsg)
//
// Run with:   go test -vet=off -count=1 -run 'TestGenuineC20_' ./middleware/dns64/
package dns64

import (
	"context"
	"testing"
	"time"

	"github.com/miekg/dns"
	"github.com/semihalev/sdns/internal/mock"
	"github.com/semihalev/sdns/middleware"
	cachemw "github.com/semihalev/sdns/middleware/cache"
)

// G1 — the synthesised TTL exceeds the AAAA negative TTL whenever that
// negative TTL is zero.
//
// negativeAAAATTL returns min(SOA.TTL, SOA.MINIMUM) but uses the value 0 to
// mean "no SOA", and skips a MINIMUM of 0 altogether. So an SOA whose TTL has
// reached 0 (the cache's ToMsg hands out uint32(remaining.Seconds()), i.e. 0,
// during an entry's last second), or whose MINIMUM field is 0, is not the
// tightest bound but no bound at all: the synthesised AAAA gets
// min(600, A TTL) although the AAAA-absence it is built on may not be cached
// for even one second (RFC 2308 §5, RFC 6147 §5.1.7).
func TestGenuineC20_SynthTTLAboveZeroNegativeTTL(t *testing.T) {
	const qname = "v4only.example.org."
	cases := []struct {
		name            string
		soaTTL, minimum uint32
	}{
		{"SOA TTL decayed to 0, MINIMUM 3600", 0, 3600},
		{"SOA TTL 3600, MINIMUM 0", 3600, 0},
		{"SOA TTL 0, MINIMUM 0", 0, 0},
		// control: a one-second negative TTL is honoured today
		{"control: SOA TTL 1", 1, 3600},
	}
	for _, tc := range cases {
		t.Run(tc.name, func(t *testing.T) {
			d := New(baseConfig())
			d.queryer = &stubQueryer{resp: aRespMsg(qname, 534, "198.51.100.7")}

			up := noDataMsg(qname, tc.minimum)
			up.Ns[0].Header().Ttl = tc.soaTTL
			neg := tc.soaTTL
			if tc.minimum < neg {
				neg = tc.minimum
			}

			ch, mw := makeChain(t, d, &stubAnswerer{msg: up}, "203.0.113.5:53", qname, dns.TypeAAAA)
			d.ServeDNS(context.Background(), ch)

			resp := mw.Msg()
			n := 0
			for _, rr := range resp.Answer {
				aaaa, ok := rr.(*dns.AAAA)
				if !ok {
					continue
				}
				n++
				if aaaa.Hdr.Ttl > neg {
					t.Errorf("synthesised AAAA TTL = %d, exceeds the AAAA negative TTL %d (SOA TTL %d, MINIMUM %d; A TTL 534)",
						aaaa.Hdr.Ttl, neg, tc.soaTTL, tc.minimum)
				}
			}
			if n == 0 {
				t.Fatalf("expected a synthesised AAAA, got %v", resp.Answer)
			}
		})
	}
}

// G1, end to end — the zero SOA TTL is not hypothetical: the real cache
// middleware produces it. CacheEntry.ToMsg serves an entry while
// remaining > 0 and stamps uint32(remaining.Seconds()) on every record, so
// throughout the entry's last second the cached NODATA reaches DNS64 with
// SOA TTL 0. The synthesised TTL counts down with the entry ... 3, 2, 1 and
// then, for that last second, jumps to the A TTL (534 here).
//
// Takes a few seconds of wall-clock time (the cache's minimum TTL); it polls
// every 20ms so it cannot step over the one-second window.
func TestGenuineC20_CachedNODATALastSecondInflatesSynthTTL(t *testing.T) {
	const qname = "decay.example.org."
	cfg := baseConfig()
	cfg.CacheSize = 1024
	d := New(cfg)
	c := cachemw.New(cfg)
	defer c.Stop()
	d.queryer = &stubQueryer{resp: aRespMsg(qname, 534, "198.51.100.7")}

	nodata := noDataMsg(qname, 3600)
	nodata.Ns[0].Header().Ttl = 2 // the cache clamps this up to its minimum TTL
	nodata.Extra = nil
	c.Set(cachemw.CacheKey{Question: nodata.Question[0]}.Hash(), nodata)

	bound := int64(-1) // synthesised TTL of the first cache-served reply
	deadline := time.Now().Add(15 * time.Second)
	for time.Now().Before(deadline) {
		missed := false
		downstream := middleware.HandlerFunc(func(_ context.Context, ch *middleware.Chain) {
			missed = true
			ch.CancelWithRcode(dns.RcodeServerFailure, false)
		})
		ch := middleware.NewChain([]middleware.Handler{d, c, downstream})
		writer := mock.NewWriter("udp", "203.0.113.5:53000")
		req := new(dns.Msg)
		req.SetQuestion(qname, dns.TypeAAAA)
		req.SetEdns0(4096, false)
		ch.Reset(writer, req)
		ch.Next(context.Background())
		if missed {
			break // entry expired; nothing more to observe
		}
		resp := writer.Msg()
		if resp == nil {
			t.Fatal("no reply")
		}
		for _, rr := range resp.Answer {
			aaaa, ok := rr.(*dns.AAAA)
			if !ok {
				continue
			}
			if bound < 0 {
				bound = int64(aaaa.Hdr.Ttl)
				t.Logf("first cache-served reply: synthesised TTL %d", bound)
			}
			if int64(aaaa.Hdr.Ttl) > bound {
				t.Fatalf("cached NODATA (negative TTL at most %d s when first served, less now) produced a synthesised AAAA with TTL %d",
					bound, aaaa.Hdr.Ttl)
			}
		}
		time.Sleep(20 * time.Millisecond)
	}
	if bound < 0 {
		t.Fatal("never saw a cache-served synthesised reply")
	}
}

// G2 — exclude_zones = ["."] excludes nothing.
//
// compileConfig keeps the root as the one-character string "." and
// zoneExcluded matches either qname == z or a "."+z suffix; for z == "."
// that suffix is "..", which no name ends in. Every name is inside the root
// zone, so with the root excluded no query is for a non-excluded zone — yet
// every one of them is synthesised. (The comment on zoneExcluded says the
// root "is not allowed in the config", but nothing rejects or even logs it.)
func TestGenuineC20_RootExcludeZoneStillSynthesises(t *testing.T) {
	const qname = "v4only.example.org."
	cfg := baseConfig()
	cfg.DNS64.ExcludeZones = []string{"."}
	d := New(cfg)
	q := &stubQueryer{resp: aRespMsg(qname, 60, "198.51.100.7")}
	d.queryer = q

	ch, mw := makeChain(t, d, &stubAnswerer{msg: noDataMsg(qname, 300)}, "203.0.113.5:53", qname, dns.TypeAAAA)
	d.ServeDNS(context.Background(), ch)

	for _, rr := range mw.Msg().Answer {
		if aaaa, ok := rr.(*dns.AAAA); ok {
			t.Errorf("exclude_zones=[\".\"] yet %s was synthesised for a name under the excluded root", aaaa.String())
		}
	}
	if q.last != nil {
		t.Errorf("exclude_zones=[\".\"] yet the secondary A lookup ran for %s", q.last.Question[0].Name)
	}
}
