// GENUINE DEFECT G1 (unmodified tree): a load-shed SERVFAIL becomes shared
// RFC 9520 failure state.
//
// Copy into: middleware/resolver/
// Run:       go test -vet=off -count=1 -run 'TestG1Shed' ./middleware/resolver/
//
// Property C13: "Failures local to one request (work-budget exhaustion,
// client deadline or cancellation, shed load, optional enrichment) never
// become shared state".
//
// Resolver.groupLookup sheds a lookup when every in-flight resolution slot
// (or the per-zone quota) is taken and returns errResolutionCapacity /
// errZoneCapacity. Neither is classified by
// middleware.IsRequestLocalResolutionError, so DNSHandler.handle does not
// mark the SERVFAIL request-local, and cache.ResponseWriter.WriteMsg files
// it in the failure cache. The next client for that question - arriving
// after the overload is gone, with a perfectly healthy authority - is
// answered SERVFAIL/EDE 13 from cache without any upstream query.
package resolver

import (
	"context"
	"sync/atomic"
	"testing"

	"github.com/miekg/dns"
	"github.com/semihalev/sdns/internal/mock"
	"github.com/semihalev/sdns/middleware"
	cachemw "github.com/semihalev/sdns/middleware/cache"
)

func g1Ask(t *testing.T, handlers []middleware.Handler, name string) *dns.Msg {
	t.Helper()
	req := new(dns.Msg)
	req.SetQuestion(name, dns.TypeA)
	req.SetEdns0(1232, false)
	w := mock.NewWriter("udp", "127.0.0.1:0")
	ch := middleware.NewChain(handlers)
	ch.Reset(w, req)
	ch.Next(context.Background())
	if !w.Written() {
		t.Fatalf("no response written for %s", name)
	}
	return w.Msg()
}

func g1EDE(m *dns.Msg) (uint16, string, bool) {
	if opt := m.IsEdns0(); opt != nil {
		for _, o := range opt.Option {
			if ede, ok := o.(*dns.EDNS0_EDE); ok {
				return ede.InfoCode, ede.ExtraText, true
			}
		}
	}
	return 0, "", false
}

func TestG1ShedLoadIsNotCachedAsFailure(t *testing.T) {
	for _, mode := range []string{"global-slots", "zone-quota"} {
		t.Run(mode, func(t *testing.T) {
			answer := mustRR(t, "www.shed. 300 IN A 192.0.2.10")
			addr, queries, stop := startTestAuthority(t, map[string][]dns.RR{
				"www.shed.": {answer},
			})
			defer stop()

			base := makeTestConfig()
			cfg := *base
			cfg.RootServers = []string{addr}
			cfg.Root6Servers = nil
			cfg.DNSSEC = "off"
			cfg.IPv6Access = false
			cfg.CacheSize = 1024
			cfg.RateLimit = 0
			cfg.MaxConcurrentQueries = 4

			h := New(&cfg)
			cm := cachemw.New(&cfg)
			defer cm.Stop()
			handlers := []middleware.Handler{cm, h}

			// Overload: every slot is taken by other clients' lookups.
			var restore func()
			switch mode {
			case "global-slots":
				n := cap(h.resolver.resolutionSlots)
				for i := 0; i < n; i++ {
					h.resolver.resolutionSlots <- struct{}{}
				}
				restore = func() {
					for i := 0; i < n; i++ {
						<-h.resolver.resolutionSlots
					}
				}
			case "zone-quota":
				h.resolver.zoneInflight = newZoneInflightLimiter(1)
				release, ok := h.resolver.zoneInflight.acquire(".")
				if !ok {
					t.Fatal("could not take the zone quota")
				}
				restore = release
			}

			first := g1Ask(t, handlers, "www.shed.")
			if first.Rcode != dns.RcodeServerFailure {
				t.Fatalf("shed request: rcode=%s, want SERVFAIL", dns.RcodeToString[first.Rcode])
			}
			if _, text, ok := g1EDE(first); ok {
				t.Logf("shed request EDE text: %q", text)
			}
			if n := queries("www.shed."); n != 0 {
				t.Fatalf("shed request reached the authority %d times", n)
			}

			// The overload is over. Nothing ever failed at the authority.
			restore()

			store, ok := cm.Store().(*cachemw.Store)
			if !ok {
				t.Fatal("cache StoreProvider did not return *cache.Store")
			}
			if n := store.FailureLen(); n != 0 {
				t.Errorf("shed load left %d entries in the shared failure cache", n)
			}

			second := g1Ask(t, handlers, "www.shed.")
			code, text, hasEDE := g1EDE(second)
			if second.Rcode != dns.RcodeSuccess || len(second.Answer) == 0 {
				t.Fatalf("request after the overload: rcode=%s answers=%d ede=(%v %d %q) upstream=%d; want the authority's answer",
					dns.RcodeToString[second.Rcode], len(second.Answer), hasEDE, code, text, queries("www.shed."))
			}
		})
	}
}

// The same root cause one level down: the shed lookup is the (required)
// address lookup of a delegation's only name server. The nested SERVFAIL is
// an ordinary message to lookupV4Nss, so the delegation ends up with no
// servers and processDelegation publishes a ZONE failure for a zone none of
// whose servers was ever contacted. Every name below it is then answered
// SERVFAIL/EDE 13 after the overload is gone.
func TestG1ShedNSAddressLookupBecomesZoneFailure(t *testing.T) {
	var ignore int64
	soa := func(zone string) *dns.Msg {
		m := &dns.Msg{}
		m.Authoritative = true
		m.Ns = []dns.RR{mustRR(t, zone+" 30 IN SOA ns."+zone+" hostmaster."+zone+" 1 30 30 30 30")}
		return m
	}

	var victimQueries atomic.Int64
	victimAddr, stopVictim := startMockAuth(t, &ignore, func(q dns.Question) *dns.Msg {
		victimQueries.Add(1)
		if q.Qtype == dns.TypeA {
			m := &dns.Msg{}
			m.Authoritative = true
			m.Answer = []dns.RR{mustRR(t, dns.CanonicalName(q.Name)+" 60 IN A 192.0.2.77")}
			return m
		}
		return soa("victim.")
	})
	defer stopVictim()

	helperAddr, stopHelper := startMockAuth(t, &ignore, func(q dns.Question) *dns.Msg {
		name := dns.CanonicalName(q.Name)
		if q.Qtype == dns.TypeA && (name == "www.helper." || name == "ns1.helper." || name == "ns.helper.") {
			m := &dns.Msg{}
			m.Authoritative = true
			addr := "192.0.2.10"
			switch name {
			case "ns1.helper.":
				addr = "192.0.2.31"
			case "ns.helper.":
				addr = "192.0.2.21"
			}
			m.Answer = []dns.RR{mustRR(t, name+" 300 IN A "+addr)}
			return m
		}
		return soa("helper.")
	})
	defer stopHelper()

	rootAddr, stopRoot := startMockAuth(t, &ignore, func(q dns.Question) *dns.Msg {
		name := dns.CanonicalName(q.Name)
		switch {
		case name == "." && q.Qtype == dns.TypeNS:
			m := &dns.Msg{}
			m.Authoritative = true
			m.Answer = []dns.RR{mustRR(t, ". 3600 IN NS a.root.")}
			return m
		case q.Qtype == dns.TypeDS:
			return soa(".")
		case dns.IsSubDomain("helper.", name):
			m := &dns.Msg{}
			m.Ns = []dns.RR{mustRR(t, "helper. 300 IN NS ns.helper.")}
			m.Extra = []dns.RR{mustRR(t, "ns.helper. 300 IN A 192.0.2.21")}
			return m
		case dns.IsSubDomain("victim.", name):
			m := &dns.Msg{} // glue-less, out-of-bailiwick name server
			m.Ns = []dns.RR{mustRR(t, "victim. 300 IN NS ns1.helper.")}
			return m
		}
		return soa(".")
	})
	defer stopRoot()

	remap := map[string]string{"192.0.2.21:53": helperAddr, "192.0.2.31:53": victimAddr}
	mapper := func(addr string) string {
		if to, ok := remap[addr]; ok {
			return to
		}
		return addr
	}

	base := makeTestConfig()
	cfg := *base
	cfg.RootServers = []string{rootAddr}
	cfg.Root6Servers = nil
	cfg.DNSSEC = "off"
	cfg.IPv6Access = false
	cfg.CacheSize = 1024
	cfg.RateLimit = 0

	h := New(&cfg)
	h.resolver.resolveTarget.Store(&mapper)
	h.resolver.zoneInflight = newZoneInflightLimiter(2)
	cm := cachemw.New(&cfg)
	defer cm.Stop()
	handlers := []middleware.Handler{cm, h}
	internal := &chainQueryer{handlers: handlers}
	h.SetQueryer(internal)
	cm.SetQueryer(internal)
	h.SetStore(cm.Store())

	// 1. Learn the helper. delegation.
	if resp := g1Ask(t, handlers, "www.helper."); resp.Rcode != dns.RcodeSuccess || len(resp.Answer) == 0 {
		t.Fatalf("priming www.helper.: rcode=%s answers=%d", dns.RcodeToString[resp.Rcode], len(resp.Answer))
	}

	// 2. Other clients' lookups hold the whole in-flight quota of helper.
	var releases []func()
	for {
		release, ok := h.resolver.zoneInflight.acquire("helper.")
		if !ok {
			break
		}
		releases = append(releases, release)
	}

	// 3. A client asks below victim.: the only name server's address lookup
	// is shed.
	shed := g1Ask(t, handlers, "www.victim.")
	if shed.Rcode != dns.RcodeServerFailure {
		t.Fatalf("request during the overload: rcode=%s, want SERVFAIL", dns.RcodeToString[shed.Rcode])
	}
	if n := victimQueries.Load(); n != 0 {
		t.Fatalf("victim. servers were contacted %d times during the overload", n)
	}

	// 4. The overload is over; no server of victim. has ever failed.
	for _, release := range releases {
		release()
	}
	other := g1Ask(t, handlers, "other.victim.")
	code, text, hasEDE := g1EDE(other)
	if other.Rcode != dns.RcodeSuccess || len(other.Answer) == 0 {
		t.Fatalf("a different name below victim. after the overload: rcode=%s answers=%d ede=(%v %d %q), victim. servers contacted %d times; want the authority's answer",
			dns.RcodeToString[other.Rcode], len(other.Answer), hasEDE, code, text, victimQueries.Load())
	}
}
