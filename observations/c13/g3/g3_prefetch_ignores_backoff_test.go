// GENUINE (arguable) DEFECT G3 (unmodified tree): prefetch refreshes ignore
// RFC 9520 state and keep querying upstream for names at or below a zone that
// is inside its failure backoff.
//
// Copy into: middleware/cache/
// Run:       go test -vet=off -count=1 -run 'TestG3PrefetchIgnoresActiveZoneBackoff' ./middleware/cache/
//
// Property C13: a zone failure suppresses retries for "names at or below a
// zone every one of whose servers failed ... for a backoff ... without
// upstream traffic", and "the first retry after a backoff is led by a single
// probe".
//
// A cache hit on an entry that is due for prefetch queues a refresh. The
// refresh runs through the cache-less prefetch sub-pipeline, so nothing
// consults the failure cache: while the zone's backoff is active every hit in
// the prefetch window sends another resolution to the dead zone (one in
// flight per entry; the claim is released as soon as the refresh fails, so
// the next hit starts the next one). After the backoff expires such a
// refresh is also an extra, unelected probe next to the client-led one. The
// client itself is (correctly) still served the cached positive answer; the
// defect is the upstream retry traffic the backoff exists to stop.
package cache

import (
	"context"
	"net/netip"
	"sync/atomic"
	"testing"
	"time"

	"github.com/miekg/dns"
	"github.com/semihalev/sdns/config"
	"github.com/semihalev/sdns/internal/mock"
	"github.com/semihalev/sdns/middleware"
)

type g3CountingQueryer struct {
	calls atomic.Int32
	seen  chan struct{}
}

func (q *g3CountingQueryer) Query(_ context.Context, req *dns.Msg) (*dns.Msg, error) {
	q.calls.Add(1)
	select {
	case q.seen <- struct{}{}:
	default:
	}
	// Every server of the zone is still down.
	resp := new(dns.Msg)
	resp.SetRcode(req, dns.RcodeServerFailure)
	return resp, nil
}

func TestG3PrefetchIgnoresActiveZoneBackoff(t *testing.T) {
	c := New(&config.Config{CacheSize: 1024, Expire: 300, Prefetch: 90})
	defer c.Stop()
	if c.prefetchQueue == nil {
		t.Skip("prefetch is not enabled in this build/configuration")
	}

	upstream := &g3CountingQueryer{seen: make(chan struct{}, 8)}
	c.SetPrefetchQueryer(upstream)

	// A live positive answer for www.dead.example. that is inside its
	// prefetch window (60s left of an original 600s).
	q := dns.Question{Name: "www.dead.example.", Qtype: dns.TypeA, Qclass: dns.ClassINET}
	answer := new(dns.Msg)
	answer.SetQuestion(q.Name, q.Qtype)
	answer.Response = true
	answer.Answer = []dns.RR{&dns.A{
		Hdr: dns.RR_Header{Name: q.Name, Rrtype: dns.TypeA, Class: dns.ClassINET, Ttl: 60},
		A:   []byte{192, 0, 2, 10},
	}}
	key := CacheKey{Question: q}.Hash()
	entry := NewCacheEntryWithKey(answer, 60*time.Second, 0, key)
	if entry == nil {
		t.Fatal("could not build the cache entry")
	}
	entry.origTTL = 600
	c.store.positive.Set(key, entry)
	if !entry.ShouldPrefetch(90) {
		t.Fatal("test entry is not due for prefetch")
	}

	// Every server of dead.example. has just failed: the zone is in backoff.
	c.store.RecordZoneFailure(dns.Question{Name: "other.dead.example.", Qtype: dns.TypeA, Qclass: dns.ClassINET}, "dead.example.")
	probe := new(dns.Msg)
	probe.SetQuestion(q.Name, dns.TypeAAAA)
	if _, ok := c.store.LookupFailure(probe, netip.Prefix{}); !ok {
		t.Fatal("zone failure is not active")
	}

	downstream := middleware.HandlerFunc(func(_ context.Context, ch *middleware.Chain) {
		t.Errorf("cache hit reached the downstream resolver")
		ch.CancelWithRcode(dns.RcodeServerFailure, false)
	})
	req := new(dns.Msg)
	req.SetQuestion(q.Name, q.Qtype)
	w := mock.NewWriter("udp", "192.0.2.1:53000")
	ch := middleware.NewChain([]middleware.Handler{c, downstream})
	ch.Reset(w, req)
	ch.Next(context.Background())
	if !w.Written() || w.Msg().Rcode != dns.RcodeSuccess || len(w.Msg().Answer) != 1 {
		t.Fatalf("client was not served the cached answer: %#v", w.Msg())
	}

	select {
	case <-upstream.seen:
		t.Errorf("a prefetch refresh for %s went upstream while the zone dead.example. is inside its failure backoff (refreshes=%d)",
			q.Name, upstream.calls.Load())
	case <-time.After(300 * time.Millisecond):
	}
}
