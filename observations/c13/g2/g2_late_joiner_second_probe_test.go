// GENUINE DEFECT G2 (unmodified tree): a request that looked at the expired
// failure entry, but reaches the probe election only after the probe leader
// has finished, becomes a SECOND probe and goes upstream while the renewed
// backoff is already active.
//
// Copy into: middleware/cache/
// Run:       go test -vet=off -count=1 -run 'TestG2LateJoinerBecomesSecondProbe' ./middleware/cache/
//
// Property C13: "the first retry after a backoff is led by a single probe" and
// a cached failure is "answered as SERVFAIL with EDE 13 and without upstream
// traffic" for the whole backoff; quantified over "concurrent followers of an
// expired entry".
//
// Cache.ServeDNS evaluates LookupFailure/FailureRetryKey first and joins the
// wait-group generation afterwards. Nothing re-checks the failure cache after
// leadership is won. If the previous leader completes (and renews the failure,
// now streak 2 and ACTIVE) between those two steps, JoinGeneration finds no
// generation, elects the late request leader, and the request resolves
// upstream: two probes for one expiry, and upstream traffic in the middle of
// an active backoff. The window is opened deterministically below with the
// same Internal() barrier the package's own regroup tests use (Internal() is
// read exactly between the retry-key decision and the join).
package cache

import (
	"context"
	"net/netip"
	"sync/atomic"
	"testing"
	"time"

	"github.com/miekg/dns"
	"github.com/semihalev/sdns/config"
	"github.com/semihalev/sdns/internal/dnsutil"
	"github.com/semihalev/sdns/internal/mock"
	"github.com/semihalev/sdns/middleware"
)

type g2BarrierWriter struct {
	middleware.ResponseWriter
	reached chan<- struct{}
	release <-chan struct{}
}

func (w *g2BarrierWriter) Internal() bool {
	w.reached <- struct{}{}
	<-w.release
	return false
}

func TestG2LateJoinerBecomesSecondProbe(t *testing.T) {
	c := New(&config.Config{CacheSize: 1024})
	defer c.Stop()

	now := time.Date(2026, 7, 30, 12, 0, 0, 0, time.UTC)
	var offset atomic.Int64
	c.failure.now = func() time.Time { return now.Add(time.Duration(offset.Load())) }

	zoneQ := dns.Question{Name: "seed.dead.example.", Qtype: dns.TypeA, Qclass: dns.ClassINET}
	c.store.RecordZoneFailure(zoneQ, "dead.example.")
	offset.Add(int64(DefaultFailureInitialTTL + time.Nanosecond)) // backoff over: one probe is due

	var calls atomic.Int32
	downstream := middleware.HandlerFunc(func(_ context.Context, ch *middleware.Chain) {
		calls.Add(1)
		// What the resolver does when every server of the zone fails again.
		c.store.RecordZoneFailure(ch.Request.Msg().Question[0], "dead.example.")
		resp := new(dns.Msg)
		resp.SetRcode(ch.Request.Msg(), dns.RcodeServerFailure)
		_ = ch.Writer.WriteMsg(resp)
		ch.Cancel()
	})

	newReq := func(name string) *dns.Msg {
		req := new(dns.Msg)
		req.SetQuestion(name, dns.TypeA)
		req.SetEdns0(dnsutil.DefaultMsgSize, true)
		return req
	}

	// Request B: sees the expired entry, decides it is a probe, and is held
	// right before the election.
	reached := make(chan struct{}, 1)
	release := make(chan struct{})
	lateWriter := mock.NewWriter("udp", "192.0.2.2:53000")
	lateChain := middleware.NewChain([]middleware.Handler{c, downstream})
	lateChain.Reset(lateWriter, newReq("b.dead.example."))
	lateChain.Writer = &g2BarrierWriter{ResponseWriter: lateChain.Writer, reached: reached, release: release}
	lateDone := make(chan struct{})
	go func() {
		lateChain.Next(context.Background())
		close(lateDone)
	}()
	select {
	case <-reached:
	case <-time.After(2 * time.Second):
		t.Fatal("late request never reached the probe election")
	}

	// Request A: the probe. It fails again; the zone failure is renewed.
	leadWriter := mock.NewWriter("udp", "192.0.2.1:53000")
	leadChain := middleware.NewChain([]middleware.Handler{c, downstream})
	leadChain.Reset(leadWriter, newReq("a.dead.example."))
	leadChain.Next(context.Background())
	if got := calls.Load(); got != 1 {
		t.Fatalf("probe leader downstream calls = %d, want 1", got)
	}
	hit, ok := c.store.LookupFailure(newReq("b.dead.example."), netip.Prefix{})
	if !ok || hit.Kind != FailureKindZone || hit.Streak != 2 {
		t.Fatalf("after the failed probe the zone failure must be active at streak 2, got %#v ok=%v", hit, ok)
	}

	// B now proceeds to the election.
	close(release)
	select {
	case <-lateDone:
	case <-time.After(2 * time.Second):
		t.Fatal("late request did not finish")
	}

	if got := calls.Load(); got != 1 {
		t.Errorf("upstream resolutions for one expired backoff = %d, want 1 (single probe; the backoff renewed by that probe was active when the second one started)", got)
	}
	msg := lateWriter.Msg()
	if msg == nil || msg.Rcode != dns.RcodeServerFailure {
		t.Fatalf("late request response = %#v, want SERVFAIL", msg)
	}
	if ede := dnsutil.GetEDE(msg); ede == nil || ede.InfoCode != dns.ExtendedErrorCodeCachedError {
		t.Errorf("late request EDE = %+v, want EDE 13 served from the renewed failure", ede)
	}
}
