// Reproducer for behaviour of the UNMODIFIED tree that already violates C01
// (not a seeded change; no patch involved).
//
// Copy into  middleware/resolver/  and run:
//
//	export GOFLAGS=-mod=mod GOPROXY=off
//	go test -vet=off -count=1 -run 'TestPreexistingC01WildcardNSEC' ./middleware/resolver/
//
// Observed on the unmodified tree: TestPreexistingC01WildcardNSECRenamedOwner
// FAILS (the forged NODATA is served NOERROR with AD=1); the control passes.
//
// What it shows. RRSIG verification rebuilds a wildcard owner from the RRSIG
// Labels field (RFC 4035 §5.3.2): when the presented owner has more labels
// than Labels says, the signed data is computed over "*.<last Labels labels>".
// For the ANSWER section the resolver then demands the next-closer denial
// (dnssec.VerifyWildcardAnswer…). For the AUTHORITY section nothing looks at
// Labels at all: an NSEC/NSEC3/SOA that only verifies as a wildcard expansion
// is taken at its presented owner name.
//
// So the zone's own, genuinely signed  *.secure.test. NSEC  record can be
// re-labelled to ANY owner below secure.test. and used as an exact-owner
// NODATA proof there, with the wildcard's type bitmap. Below, the signer's
// zone holds  www.secure.test. A  and  *.secure.test. TXT ; the on-path
// attacker answers the A query for www with NOERROR/NODATA built only from
// records the signer published (SOA+RRSIG, the wildcard NSEC and its RRSIG),
// changing nothing but the unsigned owner-name spelling of the NSEC and of its
// RRSIG. The resolver returns that denial with AD=1.
package resolver

import (
	"testing"

	"github.com/miekg/dns"
)

func preexistingWildcardNSEC(t *testing.T, zone *hermeticZone) (*dns.NSEC, *dns.RRSIG) {
	t.Helper()

	// The signer's record, as published:  *.secure.test. NSEC www.secure.test. TXT RRSIG NSEC
	wild := &dns.NSEC{
		Hdr: dns.RR_Header{
			Name: "*.secure.test.", Rrtype: dns.TypeNSEC, Class: dns.ClassINET, Ttl: 3600,
		},
		NextDomain: "www.secure.test.",
		TypeBitMap: []uint16{dns.TypeTXT, dns.TypeRRSIG, dns.TypeNSEC},
	}
	sig := zone.key.sign(t, []dns.RR{wild})
	if sig.Labels != 2 {
		t.Fatalf("fixture: wildcard NSEC signed with Labels=%d, want 2", sig.Labels)
	}
	return wild, sig
}

// Control: presented under its true owner the wildcard NSEC proves nothing
// about www.secure.test. A, and the denial is refused.
func TestPreexistingC01WildcardNSECTrueOwnerControl(t *testing.T) {
	net := newHermeticNet(t)
	zone := net.Delegate("secure.test.")
	wild, sig := preexistingWildcardNSEC(t, zone)
	zone.server.proveAbsent("www.secure.test.", dns.TypeA, wild, sig)

	resp := hermeticAsk(t, net.Handler(), "www.secure.test.", dns.TypeA)
	if resp.Rcode != dns.RcodeServerFailure {
		t.Fatalf("rcode=%s ad=%v, want SERVFAIL: the NSEC at *.secure.test. does not speak for www",
			dns.RcodeToString[resp.Rcode], resp.AuthenticatedData)
	}
}

// The defect: the same record and the same signature, with only the owner
// name (which the signature does not cover as spelled) rewritten to the
// queried name.
func TestPreexistingC01WildcardNSECRenamedOwner(t *testing.T) {
	net := newHermeticNet(t)
	zone := net.Delegate("secure.test.")
	wild, sig := preexistingWildcardNSEC(t, zone)

	forged := dns.Copy(wild).(*dns.NSEC)
	forged.Hdr.Name = "www.secure.test."
	forgedSig := dns.Copy(sig).(*dns.RRSIG)
	forgedSig.Hdr.Name = "www.secure.test."
	zone.server.proveAbsent("www.secure.test.", dns.TypeA, forged, forgedSig)

	resp := hermeticAsk(t, net.Handler(), "www.secure.test.", dns.TypeA)
	if resp.Rcode == dns.RcodeSuccess && len(resp.Answer) == 0 {
		t.Fatalf("forged NODATA accepted: rcode=NOERROR ad=%v authority=%d — an NSEC that only "+
			"verifies as the expansion of *.secure.test. (RRSIG Labels=2, owner has 3 labels) was "+
			"used as the exact-owner NSEC of www.secure.test.",
			resp.AuthenticatedData, len(resp.Ns))
	}
	if resp.Rcode != dns.RcodeServerFailure {
		t.Fatalf("rcode=%s, want SERVFAIL", dns.RcodeToString[resp.Rcode])
	}
}
