// Reproducer for a pre-existing violation of C12 on the UNMODIFIED tree:
// an over-budget SERVFAIL produced on the cache-HIT path carries no Extended
// DNS Error for an EDNS client.
//
// Copy into:  middleware/cache/   (package cache)
// Run with:   go test -vet=off -count=1 -run 'TestGenuineCacheHitChaseOverBudgetReplyCarriesEDE' ./middleware/cache/
//
// Property text: "the over-budget reply is a SERVFAIL (with an Extended DNS
// Error for EDNS clients)".
//
// Pipeline: edns -> cache -> a stub authority that serves the alias chain
// alias -> hop1 -> hop2 -> hop3 -> address. A first client with an ample
// budget warms the cache. A second EDNS client, enforce mode, one internal
// sub-query allowed, then HITS the cached alias; the cache completes the chain
// with its own CNAME chase and the budget trips in the second hop.
//
// On the miss path the cache write-back rebuilds the failure from the
// original request (ResponseWriter.recursionWorkFailure), so the EDE is there.
// On the hit path Cache.handleCacheHit writes what additionalAnswer returned:
// dnsutil.SetRcodeWithEDE(msg, ...) built on the message materialised from
// the cache entry, which has no OPT record, so dnsutil.SetEDE silently does
// nothing. The edns middleware then adds a fresh OPT for the client - without
// the EDE. The client sees a bare SERVFAIL and cannot tell a policy rejection
// from an upstream outage.
package cache

import (
	"context"
	"testing"

	"github.com/miekg/dns"
	"github.com/semihalev/sdns/config"
	"github.com/semihalev/sdns/internal/dnsutil"
	"github.com/semihalev/sdns/internal/mock"
	"github.com/semihalev/sdns/middleware"
	"github.com/semihalev/sdns/middleware/edns"
)

type genuineAliasAuthority struct{}

func (genuineAliasAuthority) Name() string { return "genuine-alias-authority" }

func (genuineAliasAuthority) ServeDNS(_ context.Context, ch *middleware.Chain) {
	req := ch.Request.Msg()
	q := req.Question[0]
	resp := new(dns.Msg)
	resp.SetReply(req)
	resp.RecursionAvailable = true
	if opt := req.IsEdns0(); opt != nil {
		resp.SetEdns0(dnsutil.DefaultMsgSize, opt.Do())
	}
	cname := func(target string) dns.RR {
		return &dns.CNAME{
			Hdr:    dns.RR_Header{Name: q.Name, Rrtype: dns.TypeCNAME, Class: dns.ClassINET, Ttl: 300},
			Target: target,
		}
	}
	switch q.Name {
	case "alias.hit.example.":
		resp.Answer = []dns.RR{cname("hop1.hit.example.")}
	case "hop1.hit.example.":
		resp.Answer = []dns.RR{cname("hop2.hit.example.")}
	case "hop2.hit.example.":
		resp.Answer = []dns.RR{cname("hop3.hit.example.")}
	case "hop3.hit.example.":
		resp.Answer = []dns.RR{&dns.A{
			Hdr: dns.RR_Header{Name: q.Name, Rrtype: dns.TypeA, Class: dns.ClassINET, Ttl: 300},
			A:   []byte{192, 0, 2, 55},
		}}
	default:
		resp.Rcode = dns.RcodeNameError
	}
	_ = ch.Writer.WriteMsg(resp)
	ch.Cancel()
}

func TestGenuineCacheHitChaseOverBudgetReplyCarriesEDE(t *testing.T) {
	cfg := &config.Config{CacheSize: 1024, Expire: 300}
	c := New(cfg)
	defer c.Stop()

	registry := middleware.NewRegistry()
	registry.Register("edns", func(cfg *config.Config) middleware.Handler { return edns.New(cfg) })
	registry.Register("cache", func(*config.Config) middleware.Handler { return c })
	registry.Register("genuine-alias-authority", func(*config.Config) middleware.Handler {
		return genuineAliasAuthority{}
	})
	pipeline := registry.Build(cfg)
	c.SetQueryer(middleware.NewPipelineQueryer(pipeline.SubPipeline()))

	ask := func(ledger *middleware.RecursionWorkLedger) *dns.Msg {
		req := new(dns.Msg)
		req.SetQuestion("alias.hit.example.", dns.TypeA)
		req.SetEdns0(1232, true)
		req.RecursionDesired = true
		writer := mock.NewWriter("udp", "192.0.2.9:5000")
		ch := pipeline.NewChain()
		ch.Reset(writer, req)
		ch.Next(middleware.WithRecursionWork(context.Background(), ledger))
		pipeline.PutChain(ch)
		if !writer.Written() {
			t.Fatal("no reply")
		}
		return writer.Msg()
	}

	warm := ask(middleware.NewRecursionWorkLedger(middleware.RecursionWorkPolicy{
		Mode: middleware.RecursionWorkEnforce, MaxOutboundQueries: 64, MaxInternalQueries: 64,
	}))
	if warm.Rcode != dns.RcodeSuccess || len(warm.Answer) != 4 {
		t.Fatalf("warm-up reply = %v, want the full chain", warm)
	}

	small := middleware.NewRecursionWorkLedger(middleware.RecursionWorkPolicy{
		Mode: middleware.RecursionWorkEnforce, MaxOutboundQueries: 64, MaxInternalQueries: 1,
	})
	resp := ask(small)
	if small.EnforcementError() == nil {
		t.Fatalf("the one-unit internal budget did not trip; ledger = %+v", small.Snapshot())
	}
	if resp.Rcode != dns.RcodeServerFailure {
		t.Fatalf("over-budget reply rcode = %s, want SERVFAIL", dns.RcodeToString[resp.Rcode])
	}
	if resp.IsEdns0() == nil {
		t.Fatal("EDNS client got a reply without OPT")
	}
	ede := dnsutil.GetEDE(resp)
	if ede == nil {
		t.Fatalf("over-budget SERVFAIL for an EDNS client carries no Extended DNS Error (want %q); reply:\n%v",
			middleware.RecursionWorkEDEText, resp)
	}
	if ede.ExtraText != middleware.RecursionWorkEDEText {
		t.Fatalf("EDE = %+v, want text %q", ede, middleware.RecursionWorkEDEText)
	}
}
