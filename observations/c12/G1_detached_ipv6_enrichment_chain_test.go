// Reproducer for a pre-existing violation of C12 on the UNMODIFIED tree:
// one client query starts a self-sustaining chain of detached IPv6
// nameserver-enrichment jobs that never ends while the firewall is off or in
// shadow mode (shadow is the default), i.e. the work caused by one request is
// unbounded.
//
// Copy into:  middleware/resolver/   (package resolver)
// Run with:   go test -vet=off -count=1 -run 'TestGenuineDetachedIPv6EnrichmentChainIsBounded' ./middleware/resolver/
// (about 45 seconds - three sub-tests watching for 15 s each: every helper
// sleeps two seconds before it starts. The same chain was also observed through
// the real cache -> resolver pipeline with the pipeline queryer, not only with
// the hermetic queryer used here.)
//
// Property text: "Resolving one client query performs a bounded amount of work
// whatever the DNS data looks like ... detached helper lookups included".
//
// Mechanism (middleware/resolver/resolver.go, processDelegation / lookupV6Nss):
// every newly learned delegation spawns a detached goroutine (fresh
// context.Background, fresh 30 s timeout, fresh queryer depth, fresh NS-loop
// list) that sleeps 2 s and then resolves AAAA for each nameserver name that
// came without IPv6 glue. That resolution goes through the ordinary resolver,
// so if it crosses a delegation that is not cached yet it spawns the next
// detached job. An authority that names a *fresh* nameserver, inside a *fresh*
// child zone, in every referral therefore gets asked forever, one generation
// every two seconds, for a single client query that was answered in
// milliseconds. Nothing bounds the chain: not the client's deadline (the job
// is detached), not the queryer depth, DNAME depth or NS-loop counters (each
// job starts them from zero), and with the firewall off or in shadow mode not
// the work ledger either. (In enforce mode the shared ledger does stop it -
// that case is asserted as the control.) Every concurrent client query to a
// new name under the attacker's zone starts another perpetual chain, until
// the global v6LookupSlots pool (MaxConcurrentQueries, default 1000) is full
// of them.
package resolver

import (
	"context"
	"fmt"
	"net"
	"strconv"
	"strings"
	"sync"
	"testing"
	"time"

	"github.com/miekg/dns"
	"github.com/semihalev/sdns/config"
	"github.com/semihalev/sdns/internal/dnsutil"
	"github.com/semihalev/sdns/middleware"
)

func TestGenuineDetachedIPv6EnrichmentChainIsBounded(t *testing.T) {
	for _, tc := range []struct {
		name string
		fw   config.RecursionFirewallConfig
	}{
		// Control: the shared ledger ends the chain.
		{"enforce", config.RecursionFirewallConfig{
			Mode: config.RecursionFirewallModeEnforce, MaxOutboundQueries: 9, MaxInternalQueries: 16}},
		// The default configuration normalises to shadow.
		{"shadow-default", config.RecursionFirewallConfig{}},
		{"off", config.RecursionFirewallConfig{Mode: config.RecursionFirewallModeOff}},
	} {
		t.Run(tc.name, func(t *testing.T) {
			genuineRunV6Chain(t, tc.fw)
		})
	}
}

func genuineRunV6Chain(t *testing.T, fw config.RecursionFirewallConfig) {
	const (
		evilGlue = "192.0.2.50"
		deepGlue = "192.0.2.51"
		// How long after the client has its answer we keep watching, and the
		// last helper generation that may still have started by then if the
		// chain were bounded by anything at all. Generation k starts at about
		// 2k seconds; a chain still producing new generations after six of
		// them is not going to stop.
		watch         = 15 * time.Second
		maxGeneration = 3
	)

	var (
		mu       sync.Mutex
		timeline []string
		deepest  int
		started  = time.Now()
	)
	generation := func(name string) int {
		labels := dns.SplitDomainName(name)
		if len(labels) < 3 || !strings.HasPrefix(labels[len(labels)-3], "r") {
			return -1
		}
		k, err := strconv.Atoi(labels[len(labels)-3][1:])
		if err != nil {
			return -1
		}
		return k
	}
	note := func(who string, q dns.Question) {
		if !dns.IsSubDomain("evil.test.", q.Name) {
			return // root priming is another tree
		}
		mu.Lock()
		defer mu.Unlock()
		timeline = append(timeline, fmt.Sprintf("%6.2fs %-4s %s %s",
			time.Since(started).Seconds(), who, q.Name, dns.TypeToString[q.Qtype]))
		if k := generation(q.Name); k > deepest {
			deepest = k
		}
	}
	soa := func(zone string) dns.RR {
		return &dns.SOA{
			Hdr: dns.RR_Header{Name: zone, Rrtype: dns.TypeSOA, Class: dns.ClassINET, Ttl: 0},
			Ns:  "ns." + zone, Mbox: "h." + zone, Serial: 1, Refresh: 1, Retry: 1, Expire: 1, Minttl: 0,
		}
	}

	root := startAttackWireRecorder(t, func(q dns.Question) *dns.Msg {
		note("root", q)
		if !dns.IsSubDomain("evil.test.", q.Name) {
			return &dns.Msg{MsgHdr: dns.MsgHdr{Authoritative: true, Rcode: dns.RcodeNameError}}
		}
		return &dns.Msg{
			Ns: []dns.RR{&dns.NS{
				Hdr: dns.RR_Header{Name: "evil.test.", Rrtype: dns.TypeNS, Class: dns.ClassINET, Ttl: 3600},
				Ns:  "ns.evil.test.",
			}},
			Extra: []dns.RR{&dns.A{
				Hdr: dns.RR_Header{Name: "ns.evil.test.", Rrtype: dns.TypeA, Class: dns.ClassINET, Ttl: 3600},
				A:   net.ParseIP(evilGlue),
			}},
		}
	})
	// evil.test: any name under r<k>.evil.test is delegated to a nameserver
	// named ns.r<k+1>.evil.test - IPv4 glue, no IPv6 glue. Ordinary TTLs.
	evil := startAttackWireRecorder(t, func(q dns.Question) *dns.Msg {
		note("evil", q)
		k := generation(q.Name)
		if k < 0 {
			return &dns.Msg{MsgHdr: dns.MsgHdr{Authoritative: true}, Ns: []dns.RR{soa("evil.test.")}}
		}
		zone := fmt.Sprintf("r%d.evil.test.", k)
		nsName := fmt.Sprintf("ns.r%d.evil.test.", k+1)
		return &dns.Msg{
			Ns: []dns.RR{&dns.NS{
				Hdr: dns.RR_Header{Name: zone, Rrtype: dns.TypeNS, Class: dns.ClassINET, Ttl: 3600},
				Ns:  nsName,
			}},
			Extra: []dns.RR{&dns.A{
				Hdr: dns.RR_Header{Name: nsName, Rrtype: dns.TypeA, Class: dns.ClassINET, Ttl: 3600},
				A:   net.ParseIP(deepGlue),
			}},
		}
	})
	// The child zones: an address for www, NODATA for everything else.
	deep := startAttackWireRecorder(t, func(q dns.Question) *dns.Msg {
		note("deep", q)
		m := &dns.Msg{MsgHdr: dns.MsgHdr{Authoritative: true}}
		if q.Qtype == dns.TypeA && strings.HasPrefix(q.Name, "www.") {
			m.Answer = []dns.RR{&dns.A{
				Hdr: dns.RR_Header{Name: q.Name, Rrtype: dns.TypeA, Class: dns.ClassINET, Ttl: 60},
				A:   net.IPv4(192, 0, 2, 200),
			}}
			return m
		}
		m.Ns = []dns.RR{soa(fmt.Sprintf("r%d.evil.test.", generation(q.Name)))}
		return m
	})

	cfg := makeTestConfig()
	cfg.RootServers = []string{root.addr()}
	cfg.Root6Servers = nil
	cfg.IPv6Access = true
	cfg.DNSSEC = "off"
	cfg.RootKeys = nil
	cfg.RecursionFirewall = fw
	handler := New(cfg)
	mapper := func(addr string) string {
		switch addr {
		case net.JoinHostPort(evilGlue, "53"):
			return evil.addr()
		case net.JoinHostPort(deepGlue, "53"):
			return deep.addr()
		}
		return addr
	}
	handler.resolver.resolveTarget.Store(&mapper)
	var queryer middleware.Queryer = hermeticQueryer{handler: handler}
	handler.resolver.queryer.Store(&queryer)

	req := new(dns.Msg)
	req.SetQuestion("www.r0.evil.test.", dns.TypeA)
	req.SetEdns0(dnsutil.DefaultMsgSize, true)
	req.RecursionDesired = true
	resp := handler.handle(context.Background(), req)
	if resp == nil || resp.Rcode != dns.RcodeSuccess || len(resp.Answer) != 1 {
		t.Fatalf("client reply = %v, want the address", resp)
	}
	answeredAfter := time.Since(started)

	time.Sleep(watch)

	mu.Lock()
	defer mu.Unlock()
	if deepest > maxGeneration {
		for _, line := range timeline {
			t.Log(line)
		}
		t.Fatalf("one client query, answered after %v, was still causing new upstream lookups %v later: "+
			"detached helper generation %d reached (a new one every 2 s, %d upstream queries so far) and nothing ends the chain",
			answeredAfter.Round(time.Millisecond), watch, deepest, len(timeline))
	}
	t.Logf("chain ended at helper generation %d after %d upstream queries", deepest, len(timeline))
}
