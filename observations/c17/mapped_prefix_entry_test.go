// Pre-existing deviation from C17 ("membership is exactly 'the address lies
// in at least one configured CIDR' (an IPv4-mapped IPv6 source counts as
// IPv4) ... for any list with ... mixed families").
//
// Copy into:  internal/ipset/   (package ipset)
// Run with:   GOFLAGS=-mod=mod GOPROXY=off go test -vet=off -count=1 -run 'TestGenuineC17_MappedPrefixEntry' ./internal/ipset/
//
// FAILS on the clean, unmodified checkout. A CIDR written in IPv4-mapped
// form - "::ffff:192.0.2.0/120", or "::ffff:0:0/96" for "every IPv4 client
// of a dual-stack socket" - parses without complaint (it is not reported as a
// bad entry), is filed under the IPv6 ranges, and can then never match
// anything: Contains unmaps every IPv4-mapped source before looking, so it
// only ever searches the IPv4 ranges for such a client. The source
// ::ffff:192.0.2.5 literally lies inside ::ffff:192.0.2.0/120 and is refused;
// so is 192.0.2.5. The standard library (net.ParseCIDR + IPNet.Contains),
// which the package's own TestAgreesWithNetIPNet holds up as the reference,
// matches both. The failure direction is "closed" (a configured range admits
// nobody), so this is a fidelity defect rather than an exposure.
package ipset

import (
	"net"
	"net/netip"
	"testing"
)

func TestGenuineC17_MappedPrefixEntry(t *testing.T) {
	cases := []struct {
		cidr string
		addr string
		want bool
	}{
		{"::ffff:192.0.2.0/120", "::ffff:192.0.2.5", true},
		{"::ffff:192.0.2.0/120", "192.0.2.5", true},
		{"::ffff:192.0.2.0/120", "::ffff:192.0.2.255", true},
		{"::ffff:192.0.2.0/120", "::ffff:192.0.3.0", false},
		{"::ffff:192.0.2.0/120", "192.0.3.0", false},
		{"::ffff:0:0/96", "::ffff:203.0.113.9", true},
		{"::ffff:0:0/96", "203.0.113.9", true},
		{"::ffff:0:0/96", "2001:db8::1", false},
		{"::ffff:10.0.0.0/104", "10.200.1.1", true},
		{"::ffff:10.0.0.0/104", "::ffff:10.200.1.1", true},
		{"::ffff:10.0.0.0/104", "11.0.0.0", false},
	}
	for _, tc := range cases {
		s, bad := New([]string{tc.cidr})
		if len(bad) != 0 {
			t.Fatalf("%s reported as a bad entry: %v", tc.cidr, bad)
		}
		if s.Len() != 1 {
			t.Fatalf("%s: Len = %d, want 1", tc.cidr, s.Len())
		}
		_, ref, err := net.ParseCIDR(tc.cidr)
		if err != nil {
			t.Fatal(err)
		}
		if std := ref.Contains(net.ParseIP(tc.addr)); std != tc.want {
			t.Fatalf("reference disagreement: net.IPNet(%s).Contains(%s) = %v, table says %v", tc.cidr, tc.addr, std, tc.want)
		}
		if got := s.Contains(netip.MustParseAddr(tc.addr)); got != tc.want {
			t.Errorf("list [%s]: Contains(%s) = %v, want %v", tc.cidr, tc.addr, got, tc.want)
		}
		if got := s.ContainsIP(net.ParseIP(tc.addr)); got != tc.want {
			t.Errorf("list [%s]: ContainsIP(%s) = %v, want %v", tc.cidr, tc.addr, got, tc.want)
		}
	}
}
