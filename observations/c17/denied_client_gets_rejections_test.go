// Pre-existing violation of C17 ("a query whose source address is outside
// the configured access list gets no reply ... on every transport and on
// both the wire and decoded paths").
//
// Copy into:  server/   (package server)
// Run with:   GOFLAGS=-mod=mod GOPROXY=off go test -vet=off -count=1 -run 'TestGenuineC17_DeniedClient' ./server/
//
// FAILS on the clean, unmodified checkout: the transports (and the decoded
// entry) answer NOTIMP / FORMERR to a client the access list excludes,
// because those rejections are produced before the middleware chain - and
// therefore before the access list - ever runs. The control cases (an
// ordinary query from the same denied client) pass: it gets silence.
package server

import (
	"context"
	"encoding/base64"
	"encoding/binary"
	"io"
	"net"
	"net/http"
	"net/http/httptest"
	"sync/atomic"
	"testing"
	"time"

	"github.com/miekg/dns"
	"github.com/semihalev/sdns/config"
	"github.com/semihalev/sdns/internal/mock"
	"github.com/semihalev/sdns/middleware"
	"github.com/semihalev/sdns/middleware/defaults"
)

type genuineC17Tail struct{ calls atomic.Int64 }

func (g *genuineC17Tail) Name() string { return "genuine-c17-tail" }
func (g *genuineC17Tail) ServeDNS(ctx context.Context, ch *middleware.Chain) {
	g.calls.Add(1)
	_, req := ch.Materialize(ctx)
	if req == nil {
		return
	}
	m := new(dns.Msg)
	m.SetReply(req)
	_ = ch.Writer.WriteMsg(m)
	ch.Cancel()
}

// genuineC17Server builds the real default chain up to the resolver, with
// an access list that admits 192.0.2.0/24 only - so the loopback client
// these tests speak from is outside it.
func genuineC17Server(t *testing.T) (*Server, *genuineC17Tail) {
	t.Helper()
	middleware.Reset()
	t.Cleanup(middleware.Reset)
	tail := &genuineC17Tail{}
	defaults.RegisterUpTo("resolver")
	middleware.Register("genuine-c17-tail", func(*config.Config) middleware.Handler { return tail })
	cfg := &config.Config{
		Bind:       "127.0.0.1:0",
		Expire:     600,
		CacheSize:  10240,
		AccessList: []string{"192.0.2.0/24"},
	}
	cfg.QueryTimeout.Duration = 5 * time.Second
	middleware.Setup(cfg)
	return New(cfg), tail
}

func genuineC17Header(id uint16, opcode int, qd, an, ns, ar uint16) []byte {
	b := make([]byte, 12)
	binary.BigEndian.PutUint16(b[0:], id)
	b[2] = byte(opcode<<3) | 0x01 // RD
	binary.BigEndian.PutUint16(b[4:], qd)
	binary.BigEndian.PutUint16(b[6:], an)
	binary.BigEndian.PutUint16(b[8:], ns)
	binary.BigEndian.PutUint16(b[10:], ar)
	return b
}

func genuineC17Packets(t *testing.T) []struct {
	name string
	raw  []byte
} {
	t.Helper()
	q := new(dns.Msg)
	q.SetQuestion("denied.example.", dns.TypeA)
	good, err := q.Pack()
	if err != nil {
		t.Fatal(err)
	}
	status := append([]byte(nil), good...)
	status[2] = byte(dns.OpcodeStatus<<3) | 0x01
	update := append([]byte(nil), good...)
	update[2] = byte(dns.OpcodeUpdate << 3)
	truncatedBody := append([]byte(nil), good[:len(good)-3]...) // QDCOUNT=1, question cut short
	threeAdditional := append([]byte(nil), good...)
	binary.BigEndian.PutUint16(threeAdditional[10:], 3)
	return []struct {
		name string
		raw  []byte
	}{
		{"control: ordinary query", good},
		{"opcode STATUS", status},
		{"opcode UPDATE", update},
		{"QDCOUNT=0", genuineC17Header(0x1111, dns.OpcodeQuery, 0, 0, 0, 0)},
		{"QDCOUNT=2", append(genuineC17Header(0x2222, dns.OpcodeQuery, 2, 0, 0, 0), good[12:]...)},
		{"ARCOUNT=3", threeAdditional},
		{"undecodable body", truncatedBody},
	}
}

func TestGenuineC17_DeniedClientGetsNoReply_UDP(t *testing.T) {
	s, tail := genuineC17Server(t)
	ctx, cancel := context.WithCancel(context.Background())
	defer cancel()
	udp := s.listeners[0].(*udpListener)
	if err := udp.Bind(ctx); err != nil {
		t.Fatal(err)
	}
	go func() { _ = udp.Serve(ctx) }()
	t.Cleanup(func() {
		sctx, scancel := context.WithTimeout(context.Background(), time.Second)
		defer scancel()
		_ = udp.Shutdown(sctx)
	})
	for deadline := time.Now().Add(2 * time.Second); !udp.Serving() && time.Now().Before(deadline); {
		time.Sleep(5 * time.Millisecond)
	}
	udp.mu.Lock()
	addr := udp.pcs[0].LocalAddr().String()
	udp.mu.Unlock()

	for _, p := range genuineC17Packets(t) {
		t.Run(p.name, func(t *testing.T) {
			conn, err := net.Dial("udp", addr)
			if err != nil {
				t.Fatal(err)
			}
			defer conn.Close()
			if _, err := conn.Write(p.raw); err != nil {
				t.Fatal(err)
			}
			_ = conn.SetReadDeadline(time.Now().Add(400 * time.Millisecond))
			buf := make([]byte, 4096)
			n, err := conn.Read(buf)
			if err == nil {
				rcode := -1
				if n >= 4 {
					rcode = int(buf[3] & 0x0f)
				}
				t.Errorf("client %s is outside access list [192.0.2.0/24] but received a %d-byte reply (rcode %s)",
					conn.LocalAddr(), n, dns.RcodeToString[rcode])
			}
		})
	}
	if n := tail.calls.Load(); n != 0 {
		t.Errorf("denied client reached the tail of the chain %d times", n)
	}
}

func TestGenuineC17_DeniedClientGetsNoReply_TCP(t *testing.T) {
	s, tail := genuineC17Server(t)
	ctx, cancel := context.WithCancel(context.Background())
	defer cancel()
	tcp := s.listeners[1].(*tcpListener)
	if err := tcp.Bind(ctx); err != nil {
		t.Fatal(err)
	}
	go func() { _ = tcp.Serve(ctx) }()
	t.Cleanup(func() {
		sctx, scancel := context.WithTimeout(context.Background(), time.Second)
		defer scancel()
		_ = tcp.Shutdown(sctx)
	})
	for deadline := time.Now().Add(2 * time.Second); !tcp.Serving() && time.Now().Before(deadline); {
		time.Sleep(5 * time.Millisecond)
	}
	tcp.mu.Lock()
	addr := tcp.ln.Addr().String()
	tcp.mu.Unlock()

	for _, p := range genuineC17Packets(t) {
		t.Run(p.name, func(t *testing.T) {
			conn, err := net.Dial("tcp", addr)
			if err != nil {
				t.Fatal(err)
			}
			defer conn.Close()
			frame := make([]byte, 2+len(p.raw))
			binary.BigEndian.PutUint16(frame, uint16(len(p.raw)))
			copy(frame[2:], p.raw)
			if _, err := conn.Write(frame); err != nil {
				t.Fatal(err)
			}
			_ = conn.SetReadDeadline(time.Now().Add(400 * time.Millisecond))
			buf := make([]byte, 4096)
			n, err := io.ReadAtLeast(conn, buf, 2)
			if err == nil {
				rcode := -1
				if n >= 6 {
					rcode = int(buf[5] & 0x0f)
				}
				t.Errorf("client %s is outside access list [192.0.2.0/24] but received a reply frame (rcode %s)",
					conn.LocalAddr(), dns.RcodeToString[rcode])
			}
		})
	}
	if n := tail.calls.Load(); n != 0 {
		t.Errorf("denied client reached the tail of the chain %d times", n)
	}
}

// The decoded entry shared by DNS-over-HTTPS and DNS-over-QUIC.
func TestGenuineC17_DeniedClientGetsNoReply_DecodedEntry(t *testing.T) {
	s, tail := genuineC17Server(t)

	for _, proto := range []string{"doh", "udp", "tcp"} {
		// control
		q := new(dns.Msg)
		q.SetQuestion("denied.example.", dns.TypeA)
		mw := mock.NewWriter(proto, "198.51.100.9:4444")
		s.ServeMsg(context.Background(), mw, q)
		if mw.Written() {
			t.Errorf("%s control: ordinary query from a denied client was answered: %v", proto, mw.Msg())
		}

		for _, nq := range []int{0, 2} {
			m := new(dns.Msg)
			m.Id = dns.Id()
			for i := 0; i < nq; i++ {
				m.Question = append(m.Question, dns.Question{Name: "denied.example.", Qtype: dns.TypeA, Qclass: dns.ClassINET})
			}
			mw := mock.NewWriter(proto, "198.51.100.9:4444")
			s.ServeMsg(context.Background(), mw, m)
			if mw.Written() {
				t.Errorf("%s: denied client 198.51.100.9 sent QDCOUNT=%d and was answered %s",
					proto, nq, dns.RcodeToString[mw.Msg().Rcode])
			}
		}
	}

	// And through the HTTP handler itself: an ordinary query from the denied
	// client gets no DNS message (HTTP 400), a QDCOUNT=0 one gets a DNS
	// FORMERR message with HTTP 200.
	hdr := genuineC17Header(0x3333, dns.OpcodeQuery, 0, 0, 0, 0)
	r := httptest.NewRequest(http.MethodGet, "/dns-query?dns="+base64.RawURLEncoding.EncodeToString(hdr), nil)
	r.RemoteAddr = "198.51.100.9:4444"
	hw := httptest.NewRecorder()
	s.ServeHTTP(hw, r)
	if hw.Code == http.StatusOK {
		reply := new(dns.Msg)
		if err := reply.Unpack(hw.Body.Bytes()); err == nil {
			t.Errorf("DoH: denied client 198.51.100.9 received a DNS message (rcode %s) with HTTP 200",
				dns.RcodeToString[reply.Rcode])
		}
	}

	if n := tail.calls.Load(); n != 0 {
		t.Errorf("denied client reached the tail of the chain %d times", n)
	}
}
