// Pre-existing violation of C17 ("a query whose source address is outside
// the configured access list ... causes no cache lookup, resolution or
// upstream traffic, on every transport"; "access control ... applies to
// clients").
//
// Copy into:  server/   (package server)
// Run with:   GOFLAGS=-mod=mod GOPROXY=off go test -vet=off -count=1 -run 'TestGenuineC17_SentinelSourceOverRealUDP' ./server/
// Needs permission to open a raw IPv4 socket (root / CAP_NET_RAW); it skips
// otherwise. Self-contained: does not need the other files in this directory.
//
// FAILS on the clean, unmodified checkout: middleware/response_writer.go
// classifies a writer as a resolver-internal sub-query purely from its remote
// address being 127.0.0.255 with port 0. A real datagram arriving on the
// owned UDP listener with that source (source port 0 is legal on the wire,
// and the kernel delivers it) is therefore treated as internal: the access
// list, the rate limiter, reflex and views all wave it through, and it runs
// the rest of the chain (cache, resolver). The same source address with any
// other port is correctly dropped by the access list (control case).
package server

import (
	"context"
	"encoding/binary"
	"net"
	"sync/atomic"
	"testing"
	"time"

	"github.com/miekg/dns"
	"github.com/semihalev/sdns/config"
	"github.com/semihalev/sdns/middleware"
	"github.com/semihalev/sdns/middleware/defaults"
)

type genuineC17SentinelTail struct{ calls atomic.Int64 }

func (g *genuineC17SentinelTail) Name() string { return "genuine-c17-sentinel-tail" }
func (g *genuineC17SentinelTail) ServeDNS(ctx context.Context, ch *middleware.Chain) {
	g.calls.Add(1) // stands in for the resolver: reaching it means resolution would start
	ch.Cancel()
}

func TestGenuineC17_SentinelSourceOverRealUDP(t *testing.T) {
	middleware.Reset()
	t.Cleanup(middleware.Reset)
	tail := &genuineC17SentinelTail{}
	defaults.RegisterUpTo("resolver") // the real chain: ..., accesslist, ratelimit, reflex, ..., views, ..., cache, failover
	middleware.Register("genuine-c17-sentinel-tail", func(*config.Config) middleware.Handler { return tail })
	cfg := &config.Config{
		Bind:       "127.0.0.1:0",
		Expire:     600,
		CacheSize:  10240,
		AccessList: []string{"192.0.2.0/24"}, // 127.0.0.255 is outside
	}
	cfg.QueryTimeout.Duration = 5 * time.Second
	middleware.Setup(cfg)
	s := New(cfg)

	ctx, cancel := context.WithCancel(context.Background())
	defer cancel()
	udp := s.listeners[0].(*udpListener)
	if err := udp.Bind(ctx); err != nil {
		t.Fatal(err)
	}
	go func() { _ = udp.Serve(ctx) }()
	t.Cleanup(func() {
		sctx, scancel := context.WithTimeout(context.Background(), time.Second)
		defer scancel()
		_ = udp.Shutdown(sctx)
	})
	for deadline := time.Now().Add(2 * time.Second); !udp.Serving() && time.Now().Before(deadline); {
		time.Sleep(5 * time.Millisecond)
	}
	udp.mu.Lock()
	addr := udp.pcs[0].LocalAddr().(*net.UDPAddr)
	udp.mu.Unlock()

	raw, err := net.ListenIP("ip4:udp", &net.IPAddr{IP: net.IPv4(127, 0, 0, 255)})
	if err != nil {
		t.Skipf("raw socket unavailable: %v", err)
	}
	defer raw.Close()

	send := func(sport uint16, name string) int64 {
		q := new(dns.Msg)
		q.SetQuestion(name, dns.TypeA)
		payload, err := q.Pack()
		if err != nil {
			t.Fatal(err)
		}
		pkt := make([]byte, 8+len(payload)) // UDP header, checksum 0 (= none, legal over IPv4)
		binary.BigEndian.PutUint16(pkt[0:], sport)
		binary.BigEndian.PutUint16(pkt[2:], uint16(addr.Port))
		binary.BigEndian.PutUint16(pkt[4:], uint16(len(pkt)))
		copy(pkt[8:], payload)
		before := tail.calls.Load()
		if _, err := raw.WriteToIP(pkt, &net.IPAddr{IP: net.IPv4(127, 0, 0, 1)}); err != nil {
			t.Fatalf("send: %v", err)
		}
		deadline := time.Now().Add(500 * time.Millisecond)
		for time.Now().Before(deadline) && tail.calls.Load() == before {
			time.Sleep(10 * time.Millisecond)
		}
		return tail.calls.Load() - before
	}

	if n := send(4444, "control.example."); n != 0 {
		t.Fatalf("control: 127.0.0.255:4444 is outside the access list but reached the resolver stand-in %d times", n)
	}
	if n := send(0, "sentinel.example."); n != 0 {
		t.Errorf("a real UDP datagram from 127.0.0.255:0 - outside access list [192.0.2.0/24] - was treated as a "+
			"resolver-internal sub-query and ran the chain through to the resolver stand-in (%d call)", n)
	}
}
